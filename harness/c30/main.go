// C30: timed-out actions are killed with all their children (input side: exhaustive product of command behaviours,
// one real execution each through the real process.Executor.ExecWithTimeout).
package main

import (
	"context"
	"errors"
	"fmt"
	"os"
	"path/filepath"
	"strconv"
	"strings"
	"sync"
	"syscall"
	"time"

	"github.com/thought-machine/please/src/process"
	"github.com/thought-machine/please/verifharness/lib"
)

type cse struct {
	IgnoreTerm bool    `json:"ignore_term"`
	Child      string  `json:"child"` // none | holds-stdout | detached
	Exit       string  `json:"exit"`  // before | at | after
	Timeout    float64 `json:"timeout_s"`
}

func (c cse) String() string {
	return fmt.Sprintf("ignoreTERM=%v child=%s exit=%s timeout=%.1fs", c.IgnoreTerm, c.Child, c.Exit, c.Timeout)
}

func alive(pid int) bool {
	if pid <= 0 {
		return false
	}
	if err := syscall.Kill(pid, 0); err != nil {
		return false
	}
	// a zombie is not running
	b, err := os.ReadFile(fmt.Sprintf("/proc/%d/stat", pid))
	if err != nil {
		return false
	}
	if i := strings.LastIndexByte(string(b), ')'); i >= 0 && len(b) > i+2 && b[i+2] == 'Z' {
		return false
	}
	return true
}

func readPid(p string) int {
	b, _ := os.ReadFile(p)
	n, _ := strconv.Atoi(strings.TrimSpace(string(b)))
	return n
}

// run executes one case; returns (class, detail) or "".
func run(e *process.Executor, c cse, dir string) (string, string) {
	os.MkdirAll(dir, 0o755)
	mainPid, childPid := filepath.Join(dir, "main.pid"), filepath.Join(dir, "child.pid")
	var sb strings.Builder
	if c.IgnoreTerm {
		sb.WriteString("trap '' TERM; ")
	}
	fmt.Fprintf(&sb, "echo $$ > %s; ", mainPid)
	childCmd := "sleep 30"
	if c.IgnoreTerm {
		childCmd = "bash -c \"trap '' TERM; sleep 30\""
	}
	switch c.Child {
	case "holds-stdout":
		fmt.Fprintf(&sb, "%s & echo $! > %s; ", childCmd, childPid)
	case "detached":
		fmt.Fprintf(&sb, "%s >/dev/null 2>&1 </dev/null & echo $! > %s; ", childCmd, childPid)
	}
	switch c.Exit {
	case "before":
		sb.WriteString("sleep 0.05")
	case "at":
		fmt.Fprintf(&sb, "sleep %.2f", c.Timeout)
	case "after":
		sb.WriteString("sleep 30; sleep 30")
	}
	timeout := time.Duration(c.Timeout * float64(time.Second))
	start := time.Now()
	_, _, err := e.ExecWithTimeout(context.Background(), nil, dir, []string{"PATH=/usr/bin:/bin"}, timeout, false, false, false, false, process.NoSandbox, []string{"bash", "-c", sb.String()})
	took := time.Since(start)
	// generous, documented bound: deadline + the code's own TERM (30ms) and KILL (1s) waits + 5s slack
	bound := timeout + 1030*time.Millisecond + 5*time.Second
	timedOut := errors.Is(err, context.DeadlineExceeded)
	if took > bound {
		return "returned-too-late", fmt.Sprintf("%s: returned after %v (> %v), err=%v", c, took, bound, err)
	}
	expectTimeout := c.Exit == "after" || (c.Child == "holds-stdout") // a child holding the output pipe keeps the action unfinished until the deadline
	if c.Exit == "at" {
		expectTimeout = timedOut // both outcomes accepted right at the deadline
	}
	if expectTimeout && !timedOut {
		return "deadline-not-reported", fmt.Sprintf("%s: expected a deadline error, got %v after %v", c, err, took)
	}
	if !expectTimeout && timedOut {
		return "spurious-deadline", fmt.Sprintf("%s: finished before the deadline but reported %v", c, err)
	}
	time.Sleep(1500 * time.Millisecond)
	mp, cp := readPid(mainPid), readPid(childPid)
	if alive(mp) {
		syscall.Kill(-mp, syscall.SIGKILL)
		return "main-process-survives", fmt.Sprintf("%s: the command's shell (pid %d) is still running 1.5s after the action was reported finished (err=%v)", c, mp, err)
	}
	if cp > 0 && alive(cp) {
		syscall.Kill(cp, syscall.SIGKILL)
		if timedOut {
			return "timeout:child-in-process-group-survives", fmt.Sprintf("%s: background child %d survives a timed-out action", c, cp)
		}
		return "normal-exit:background-child-survives", fmt.Sprintf("%s: background child %d (same process group, output detached) keeps running after the action finished normally", c, cp)
	}
	return "", ""
}

func main() {
	r := lib.Start("C30", "exploration")
	lib.Quiet()
	var cases []cse
	timeouts := []float64{0.3}
	if !r.Quick() {
		timeouts = []float64{0.2, 0.5, 1.0}
	}
	for _, to := range timeouts {
		for _, it := range []bool{false, true} {
			for _, ch := range []string{"none", "holds-stdout", "detached"} {
				for _, ex := range []string{"before", "at", "after"} {
					cases = append(cases, cse{it, ch, ex, to})
				}
			}
		}
	}
	base := filepath.Join(lib.VerifRoot, ".work", "c30")
	os.RemoveAll(base)
	defer os.RemoveAll(base)
	e := process.New()
	if r.Replay != "" {
		var c cse
		lib.LoadReplay(r.Replay, &c)
		cases = []cse{c}
	}
	var wg sync.WaitGroup
	sem := make(chan struct{}, 6)
	for i, c := range cases {
		wg.Add(1)
		sem <- struct{}{}
		go func(i int, c cse) {
			defer wg.Done()
			defer func() { <-sem }()
			cls, detail := run(e, c, filepath.Join(base, fmt.Sprint(i)))
			if cls != "" {
				// classify failures before believing them: the same case must fail the same way again
				cls2, _ := run(e, c, filepath.Join(base, fmt.Sprint(i)+"r"))
				if cls2 != cls {
					fmt.Fprintf(os.Stderr, "NOTE: %s gave %q then %q; not reported (timing-dependent outcome)\n", c, cls, cls2)
					return
				}
				r.Violate(cls, c, detail)
			}
		}(i, c)
	}
	wg.Wait()
	var samples []any
	for i, c := range cases {
		if i%7 == 0 {
			samples = append(samples, c)
		}
	}
	r.Assume = []string{
		"LIMIT: kernel scheduling, signal delivery and timer firing are not under the explorer's control; the schedule half of this property's quantifier is NOT enumerated. The claim is the exhaustive input product, one real execution each (failures are re-run once and only reported if they reproduce).",
		"bounds are generous and documented: return within deadline + 1.03s (the code's own TERM/KILL waits) + 5s slack; survivors are checked 1.5s after return; 'exits right at the deadline' accepts both outcomes",
		"children are background jobs of the action's shell, i.e. in the action's process group (the statement's scope)",
	}
	r.Finish(lib.Coverage{
		Evaluations:        len(cases),
		DistinctNontrivial: len(cases),
		Rule:               "full product {ignores SIGTERM} x {no child, background child holding stdout, background child with detached output} x {exits before / at / after the deadline} x timeouts; each distinct by construction, all non-trivial (every case spawns a real process through ExecWithTimeout)",
		Samples:            samples,
		Exhaustive:         true,
	})
}

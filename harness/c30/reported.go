package main

import (
	"bytes"
	"fmt"
	"os"
	"os/exec"
	"path/filepath"
	"strings"
	"sync"
	"syscall"
	"time"

	"github.com/thought-machine/please/verifharness/lib"
)

// Reported tier: the statement's second half ("is reported as failed") as the user sees it. One real `plz build` /
// `plz test` per behaviour of a command that overruns a 2 s timeout: plz must exit non-zero and no process of the
// command may be left.

type repCase struct {
	Reported   bool   `json:"reported_tier"`
	Kind       string `json:"kind"`    // build | test
	Results    string `json:"results"` // test only: none | passing-results-written-before-the-overrun
	Overrun    string `json:"overrun"` // leader-sleeps | leader-exits-child-holds-output
	IgnoreTerm bool   `json:"ignore_term"`
	BuildFile  string `json:"build_file,omitempty"`
}

func (c repCase) String() string {
	return fmt.Sprintf("%s results=%s overrun=%s ignoreTERM=%v", c.Kind, c.Results, c.Overrun, c.IgnoreTerm)
}

func (c repCase) command(pidDir string) string {
	var sb strings.Builder
	if c.IgnoreTerm {
		sb.WriteString("trap '' TERM; ")
	}
	sb.WriteString("echo $$ > " + pidDir + "/leader; ")
	if c.Kind == "test" && c.Results != "none" {
		sb.WriteString(`printf '=== RUN   TestOk\n--- PASS: TestOk (0.00s)\nPASS\n' > $RESULTS_FILE; `)
	}
	if c.Overrun == "leader-sleeps" {
		sb.WriteString("sleep 300 & echo $! > " + pidDir + "/child; sleep 300")
	} else {
		sb.WriteString("sleep 300 & echo $! > " + pidDir + "/child; exit 0") // the child keeps stdout/stderr open
	}
	return sb.String()
}

func (c repCase) buildFile(pidDir string) string {
	if c.Kind == "build" {
		return fmt.Sprintf("genrule(name = \"t\", outs = [\"t.out\"], cmd = %q, timeout = 2)\n", c.command(pidDir)+"; touch $OUT")
	}
	extra := ""
	if c.Results == "none" {
		extra = ", no_test_output = True"
	}
	return fmt.Sprintf("gentest(name = \"t\", outs = [\"t.out\"], cmd = \"touch $OUT\", test_cmd = %q, timeout = 2, no_test_coverage = True%s)\n", c.command(pidDir), extra)
}

const repConfig = "[please]\nselfupdate = false\n[build]\npath = /usr/local/bin:/usr/bin:/bin\n[cache]\ndir =\n[display]\nsystemstats = false\n"

func runReported(plz string, c repCase, dir string) (class, detail string) {
	os.RemoveAll(dir)
	pidDir := filepath.Join(dir, "pids")
	os.MkdirAll(filepath.Join(dir, "repo", "p"), 0o755)
	os.MkdirAll(pidDir, 0o755)
	os.WriteFile(filepath.Join(dir, "repo", ".plzconfig"), []byte(repConfig), 0o644)
	os.WriteFile(filepath.Join(dir, "repo", "p", "BUILD"), []byte(c.buildFile(pidDir)), 0o644)
	verb := "build"
	if c.Kind == "test" {
		verb = "test"
	}
	cmd := exec.Command(plz, verb, "--plain_output", "-v", "warning", "-n", "1", "//p:t")
	cmd.Dir = filepath.Join(dir, "repo")
	cmd.Env = []string{"PATH=/usr/local/bin:/usr/bin:/bin", "HOME=" + dir, "LANG=C"}
	var out bytes.Buffer
	cmd.Stdout, cmd.Stderr = &out, &out
	cmd.SysProcAttr = &syscall.SysProcAttr{Setpgid: true}
	start := time.Now()
	if err := cmd.Start(); err != nil {
		lib.Fatal("reported tier: cannot start plz: %s", err)
	}
	done := make(chan error, 1)
	go func() { done <- cmd.Wait() }()
	var err error
	select {
	case err = <-done:
	case <-time.After(120 * time.Second):
		syscall.Kill(-cmd.Process.Pid, syscall.SIGKILL)
		<-done
		return "", "" // horizon: no verdict (never an alarm by wall clock alone)
	}
	elapsed := time.Since(start)
	defer func() {
		for _, f := range []string{"leader", "child"} {
			if pid := readPid(filepath.Join(pidDir, f)); pid > 0 {
				syscall.Kill(pid, syscall.SIGKILL)
			}
		}
		os.RemoveAll(dir)
	}()
	if readPid(filepath.Join(pidDir, "leader")) == 0 {
		lib.Fatal("reported tier: the command of %s never started (vacuous):\n%s", c, out.String())
	}
	if err == nil {
		return "reported:overrun-" + c.Kind + "-reported-as-success:results=" + c.Results, fmt.Sprintf("%s: plz %s exited 0 after %.1fs although the command overran its 2 s timeout\n%s", c, verb, elapsed.Seconds(), out.String())
	}
	time.Sleep(1500 * time.Millisecond)
	for _, f := range []string{"leader", "child"} {
		if pid := readPid(filepath.Join(pidDir, f)); alive(pid) {
			return "reported:process-survives:" + f, fmt.Sprintf("%s: %s process %d still runs 1.5 s after plz reported the failure", c, f, pid)
		}
	}
	return "", ""
}

func reportedCases() []repCase {
	var cs []repCase
	for _, kind := range []string{"build", "test"} {
		results := []string{"none"}
		if kind == "test" {
			results = []string{"none", "passing-results-written-before-the-overrun"}
		}
		for _, res := range results {
			for _, ov := range []string{"leader-sleeps", "leader-exits-child-holds-output"} {
				for _, it := range []bool{false, true} {
					cs = append(cs, repCase{Reported: true, Kind: kind, Results: res, Overrun: ov, IgnoreTerm: it})
				}
			}
		}
	}
	return cs
}

func reportedTier(r *lib.Run, only *repCase) int {
	plz := os.Getenv("VERIF_PLZ")
	if plz == "" {
		lib.Fatal("VERIF_PLZ not set (the driver builds plz for the reported tier)")
	}
	base := filepath.Join(lib.VerifRoot, ".work", "c30-reported")
	defer os.RemoveAll(base)
	cases := reportedCases()
	if only != nil {
		cases = []repCase{*only}
	}
	var wg sync.WaitGroup
	sem := make(chan struct{}, 4)
	for i, c := range cases {
		wg.Add(1)
		sem <- struct{}{}
		go func(i int, c repCase) {
			defer wg.Done()
			defer func() { <-sem }()
			cls, detail := runReported(plz, c, filepath.Join(base, fmt.Sprint(i)))
			if cls == "" {
				return
			}
			if cls2, _ := runReported(plz, c, filepath.Join(base, fmt.Sprint(i)+"r")); cls2 != cls {
				fmt.Fprintf(os.Stderr, "NOTE: %s gave %q then %q; not reported (timing-dependent outcome)\n", c, cls, cls2)
				return
			}
			c.BuildFile = c.buildFile("<pid dir>")
			r.Violate(cls, c, "[reported tier] "+detail)
		}(i, c)
	}
	wg.Wait()
	return len(cases)
}

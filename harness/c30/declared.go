package main

import (
	"fmt"
	"strings"
	"time"

	"github.com/thought-machine/please/src/core"
	"github.com/thought-machine/please/src/fs"
	"github.com/thought-machine/please/src/parse"
	"github.com/thought-machine/please/verifharness/lib"
)

// Declared-deadline tier: "its timeout" is what the BUILD file declares. The deadline handed to ExecWithTimeout is
// target.BuildTimeout (src/build) / target.Test.Timeout (src/test); this tier runs the real parser over every
// combination of the three arguments that decide them and compares with the documented meaning: an integer is the
// number of seconds, a string names a size, otherwise the size's timeout, otherwise the configured default.

type declCase struct {
	Declared bool   `json:"declared_tier"`
	Rule     string `json:"rule"`          // build_rule | genrule | gentest
	Size     string `json:"size"`          // "" = not given
	Build    string `json:"build_timeout"` // "" = not given, digits = seconds, otherwise a size name
	Test     string `json:"test_timeout"`
	Source   string `json:"build_file"`
}

func declArg(name, v string) string {
	switch {
	case v == "":
		return ""
	case v[0] >= '0' && v[0] <= '9':
		return fmt.Sprintf(", %s = %s", name, v)
	}
	return fmt.Sprintf(", %s = %q", name, v)
}

func (c *declCase) source() string {
	size := ""
	if c.Size != "" {
		size = fmt.Sprintf(", size = %q", c.Size)
	}
	switch c.Rule {
	case "genrule":
		return fmt.Sprintf("genrule(name = \"t\", outs = [\"o\"], cmd = \"true\"%s)\n", declArg("timeout", c.Build))
	case "gentest":
		return fmt.Sprintf("gentest(name = \"t\", outs = [\"o\"], cmd = \"true\", test_cmd = \"true\", no_test_output = True%s%s)\n", size, declArg("timeout", c.Test))
	}
	return fmt.Sprintf("build_rule(name = \"t\", outs = [\"o\"], cmd = \"true\", test = True, test_cmd = \"true\", no_test_output = True%s%s%s)\n",
		size, declArg("build_timeout", c.Build), declArg("test_timeout", c.Test))
}

func declWant(state *core.BuildState, size, v string, def time.Duration) time.Duration {
	switch {
	case v != "" && v[0] >= '0' && v[0] <= '9':
		var n int
		fmt.Sscan(v, &n)
		if n > 0 {
			return time.Duration(n) * time.Second
		}
	case v != "":
		return time.Duration(state.Config.Size[v].Timeout)
	}
	if size != "" {
		return time.Duration(state.Config.Size[size].Timeout)
	}
	return def
}

func declCheck(state *core.BuildState, c declCase, n int) (class, detail string) {
	c.Source = c.source()
	pkg := core.NewPackage(fmt.Sprintf("decl%d", n))
	pkg.Filename = pkg.Name + "/BUILD"
	var perr error
	func() {
		defer func() {
			if r := recover(); r != nil {
				perr = fmt.Errorf("%v", r)
			}
		}()
		perr = state.Parser.ParseReader(pkg, strings.NewReader(c.Source), nil, nil, core.ParseModeNormal)
	}()
	if perr != nil {
		lib.Fatal("declared-deadline tier: %q does not parse: %s", c.Source, perr)
	}
	t := pkg.Target("t")
	if t == nil {
		lib.Fatal("declared-deadline tier: %q defines no target t", c.Source)
	}
	kind := func(v string) string {
		switch {
		case v == "":
			return "none"
		case v[0] >= '0' && v[0] <= '9':
			return "seconds"
		}
		return "size-name"
	}
	sz := "no-size"
	if c.Size != "" {
		sz = "size"
	}
	if c.Rule != "gentest" {
		if want := declWant(state, c.Size, c.Build, time.Duration(state.Config.Build.Timeout)); t.BuildTimeout != want {
			return fmt.Sprintf("declared-deadline:build:%s:timeout=%s", sz, kind(c.Build)), fmt.Sprintf("%s: the build command's deadline is %s, declared %s", strings.TrimSpace(c.Source), t.BuildTimeout, want)
		}
	}
	if c.Rule != "genrule" {
		if t.Test == nil {
			lib.Fatal("declared-deadline tier: %q is not a test", c.Source)
		}
		if want := declWant(state, c.Size, c.Test, time.Duration(state.Config.Test.Timeout)); t.Test.Timeout != want {
			return fmt.Sprintf("declared-deadline:test:%s:timeout=%s", sz, kind(c.Test)), fmt.Sprintf("%s: the test command's deadline is %s, declared %s", strings.TrimSpace(c.Source), t.Test.Timeout, want)
		}
	}
	return "", ""
}

// declaredTier returns the number of cases; violations are reported once per class (simplest case first).
func declaredTier(r *lib.Run, only *declCase) int {
	config, err := core.ReadConfigFiles(fs.HostFS, nil, nil) // no files: the defaults, including the four sizes and their timeout names
	if err != nil {
		lib.Fatal("declared-deadline tier: default configuration: %s", err)
	}
	state := core.NewBuildState(config)
	parse.InitParser(state)
	if only != nil {
		if cls, detail := declCheck(state, *only, 0); cls != "" {
			r.Violate(cls, *only, "[declared-deadline tier] "+detail)
		}
		return 1
	}
	sizes := []string{"", "small", "medium", "large", "enormous"}
	vals := []string{"", "7", "90", "4000", "short", "large"}
	n := 0
	seen := map[string]bool{}
	do := func(c declCase) {
		n++
		c.Declared = true
		cls, detail := declCheck(state, c, n)
		if cls == "" {
			return
		}
		if seen[cls] {
			r.Violate(cls, nil, "")
			return
		}
		seen[cls] = true
		c.Source = c.source()
		r.Violate(cls, c, "[declared-deadline tier] "+detail)
	}
	for _, s := range sizes {
		for _, b := range vals {
			for _, t := range vals {
				do(declCase{Rule: "build_rule", Size: s, Build: b, Test: t})
			}
		}
		for _, t := range vals[:4] {
			do(declCase{Rule: "gentest", Size: s, Test: t})
		}
	}
	for _, b := range vals[:4] {
		do(declCase{Rule: "genrule", Build: b})
	}
	return n
}

// C22: expanding //dir/... yields exactly the directories under dir that contain a BUILD file, excluding plz-out, hidden
// directories and blacklisted directories (matched as whole path components).
//
// Every directory tree with at most K directories over the names {a, exp, experimental, out, output, z, .git, plz-out}
// (names chosen to be string prefixes of one another), every subset of BUILD files, at most one plain file named
// out/output/exp anywhere, every blacklist in {[], [out], [a/out], [out, a/out]}, experimental dirs {[], [exp]} and every
// eligible expansion root is created on a real file system and walked by the real plz.FindAllBuildFiles; the result is
// compared with a reference walk that matches blacklist entries component-wise.
//
// FindAllBuildFiles works on paths relative to the process working directory, so the enumeration is sharded over worker
// processes (one re-exec per worker, each with its own scratch directory), not goroutines.
package main

import (
	"encoding/json"
	"fmt"
	"os"
	"os/exec"
	"path/filepath"
	"runtime"
	"sort"
	"strconv"
	"strings"
	"sync"
	"sync/atomic"
	"syscall"
	"time"

	"github.com/thought-machine/please/src/core"
	"github.com/thought-machine/please/src/plz"
	"github.com/thought-machine/please/verifharness/lib"
)

var dirNames = []string{".git", "a", "exp", "experimental", "out", "output", "plz-out", "z"}
var fileNames = []string{"exp", "out", "output"}
var blacklists = [][]string{{}, {"out"}, {"a/out"}, {"out", "a/out"}}
var experimentals = [][]string{{}, {"exp"}}

type witness struct {
	Dirs         []string `json:"dirs"`                 // all directories of the tree (relative paths)
	Builds       []string `json:"build_files_in"`       // directories holding a BUILD file ("" = repo root)
	File         string   `json:"plain_file,omitempty"` // one plain (non-BUILD) file
	Blacklist    []string `json:"blacklist"`
	Experimental []string `json:"experimental"`
	Root         string   `json:"root"` // expansion root: "" for //..., "a" for //a/...
	Path         string   `json:"misjudged,omitempty"`
}

// ---- reference --------------------------------------------------------------------------------------------------------

func parentOf(p string) string {
	if i := strings.LastIndexByte(p, '/'); i != -1 {
		return p[:i]
	}
	return ""
}

func baseOf(p string) string { return p[strings.LastIndexByte(p, '/')+1:] }

func within(root, d string) bool { return root == "" || d == root || strings.HasPrefix(d, root+"/") }

func blacklisted(bl []string, a string) bool {
	for _, e := range bl {
		if strings.Contains(e, "/") {
			if a == e {
				return true
			}
		} else if baseOf(a) == e {
			return true
		}
	}
	return false
}

func contains(l []string, s string) bool {
	for _, x := range l {
		if x == s {
			return true
		}
	}
	return false
}

// excludedDir says why directory a is not descended into ("" = it is walked).
func excludedDir(w *witness, a string) string {
	switch b := baseOf(a); {
	case b == "plz-out":
		return "plz-out"
	case strings.HasPrefix(b, "."):
		return "hidden-dir"
	case blacklisted(w.Blacklist, a):
		return "blacklisted"
	case contains(w.Experimental, a):
		return "experimental"
	}
	return ""
}

// excludedBelow: is any directory strictly below root on the way down to d (d included) excluded?
func excludedBelow(w *witness, root, d string) string {
	for a := d; a != root && a != ""; a = parentOf(a) {
		if r := excludedDir(w, a); r != "" {
			return r
		}
	}
	return ""
}

// belowPathBlacklisted: the root is, or lies below, a directory named by a multi-component (path-anchored) blacklist entry.
// Such an expansion is specified: everything under a blacklisted directory is excluded, so it yields nothing.
// (Roots below a directory that is blacklisted only by its base name stay unenumerated: unspecified.)
func belowPathBlacklisted(w *witness, r string) bool {
	for _, e := range w.Blacklist {
		if strings.Contains(e, "/") && (r == e || strings.HasPrefix(r, e+"/")) {
			return true
		}
	}
	return false
}

func eligibleRoot(w *witness, r string) bool {
	if belowPathBlacklisted(w, r) {
		for a := r; a != ""; a = parentOf(a) {
			if x := excludedDir(w, a); x == "plz-out" || x == "hidden-dir" {
				return false
			}
		}
		return true
	}
	for a := r; a != ""; a = parentOf(a) {
		switch excludedDir(w, a) {
		case "plz-out", "hidden-dir", "blacklisted":
			return false // asking for //out/... with out blacklisted etc.: not specified, not enumerated
		}
	}
	return true
}

func expected(w *witness) []string {
	out := []string{}
	if belowPathBlacklisted(w, w.Root) {
		return out
	}
	for _, d := range w.Builds {
		if within(w.Root, d) && excludedBelow(w, w.Root, d) == "" {
			out = append(out, filepath.Join(d, "BUILD"))
		}
	}
	sort.Strings(out)
	return out
}

// ---- real code -----------------------------------------------------------------------------------------------------------

var configs = map[string]*core.Configuration{}

func realWalk(w *witness) []string {
	key := strings.Join(w.Blacklist, ",") + "|" + strings.Join(w.Experimental, ",")
	c := configs[key]
	if c == nil {
		c = core.DefaultConfiguration()
		c.Parse.BuildFileName = []string{"BUILD", "BUILD.plz"} // the documented default (set by ReadConfigFiles)
		c.Parse.BlacklistDirs = w.Blacklist
		c.Parse.ExperimentalDir = w.Experimental
		configs[key] = c
	}
	out := []string{}
	for f := range plz.FindAllBuildFiles(c, w.Root, "") {
		out = append(out, filepath.Clean(f))
	}
	sort.Strings(out)
	return out
}

// classify names the cause of the first misjudged BUILD file by the shape of the tree around it.
func classify(w *witness, path string, missing bool) string {
	d := filepath.Dir(path)
	if d == "." {
		d = ""
	}
	if !missing {
		reason := "no-build-file-there"
		switch {
		case !within(w.Root, d):
			reason = "outside-requested-root"
		case excludedBelow(w, w.Root, d) != "":
			reason = excludedBelow(w, w.Root, d)
		}
		return "walk:extra:" + reason
	}
	// 1. an ancestor (or the root itself) has a blacklist entry as a mere string prefix
	for a := d; a != ""; a = parentOf(a) {
		if !within(w.Root, a) {
			break
		}
		for _, e := range w.Blacklist {
			if strings.HasPrefix(a, e) && !blacklisted(w.Blacklist, a) {
				return "walk:missing:blacklist-string-prefix:directory" // also when that directory is the requested root
			}
		}
	}
	// 2. a plain file that sorts before the way down matches a blacklist / experimental entry
	if w.File != "" {
		fd, fb := parentOf(w.File), baseOf(w.File)
		if within(w.Root, fd) && (fd == d || within(fd, d) || fd == "") {
			// the sibling of the file that leads to d
			rest := strings.TrimPrefix(strings.TrimPrefix(d, fd), "/")
			if fd == "" {
				rest = d
			}
			next := strings.SplitN(rest, "/", 2)[0]
			if next != "" && fb < next {
				for _, e := range w.Blacklist {
					if fb == e || w.File == e {
						return "walk:missing:non-directory-entry-ends-directory:blacklist-name-equal"
					}
					if strings.HasPrefix(w.File, e) {
						return "walk:missing:non-directory-entry-ends-directory:blacklist-string-prefix"
					}
				}
				if contains(w.Experimental, w.File) {
					return "walk:missing:non-directory-entry-ends-directory:experimental-path-equal"
				}
			}
		}
	}
	// 3. the requested root is the experimental directory itself
	if w.Root != "" && contains(w.Experimental, w.Root) {
		return "walk:missing:experimental-dir-as-requested-root"
	}
	return "walk:missing:unexplained"
}

// judge runs one case in the current directory (the tree must exist). Returns class ("" = agrees), detail, misjudged path.
func judge(w *witness) (string, string, string) {
	got, want := realWalk(w), expected(w)
	gm, wm := map[string]bool{}, map[string]bool{}
	for _, g := range got {
		if gm[g] {
			return "walk:duplicate", fmt.Sprintf("%s reported twice", g), g
		}
		gm[g] = true
	}
	for _, x := range want {
		wm[x] = true
	}
	for _, x := range want {
		if !gm[x] {
			return classify(w, x, true), fmt.Sprintf("FindAllBuildFiles(root=%q) blacklist=%v experimental=%v on dirs=%v builds=%v file=%q: got %v, want %v (missing %s)", w.Root, w.Blacklist, w.Experimental, w.Dirs, w.Builds, w.File, got, want, x), x
		}
	}
	for _, g := range got {
		if !wm[g] {
			return classify(w, g, false), fmt.Sprintf("FindAllBuildFiles(root=%q) blacklist=%v experimental=%v on dirs=%v builds=%v file=%q: got %v, want %v (unexpected %s)", w.Root, w.Blacklist, w.Experimental, w.Dirs, w.Builds, w.File, got, want, g), g
		}
	}
	// the same expansion as the command line does it: the pattern alone, and after an earlier pattern that covers it
	// (`plz build //... //exp/...`): every pattern of an invocation expands to its own packages, whatever came before it
	if c, d, p := judgeCommandLine(w, want); c != "" {
		return c, d, p
	}
	return "", "", ""
}

var cmdlineEvals int64

func sortedSet(m map[string]bool) []string {
	ks := make([]string, 0, len(m))
	for k := range m {
		ks = append(ks, k)
	}
	sort.Strings(ks)
	return ks
}

func labelOf(root string) core.BuildLabel { return core.NewBuildLabel(root, "...") }

func judgeCommandLine(w *witness, want []string) (string, string, string) {
	if len(w.Blacklist) == 0 && len(w.Experimental) == 0 {
		return "", "", "" // nothing is pruned: covered by the walk itself
	}
	c := configs[strings.Join(w.Blacklist, ",")+"|"+strings.Join(w.Experimental, ",")]
	pkgsOf := func(files []string) map[string]bool {
		m := map[string]bool{}
		for _, f := range files {
			d := filepath.Dir(f)
			if d == "." {
				d = ""
			}
			m[d] = true
		}
		return m
	}
	check := func(targets []core.BuildLabel, wantPkgs map[string]bool, what string) (string, string, string) {
		atomic.AddInt64(&cmdlineEvals, 1)
		got := map[string]bool{}
		for _, l := range plz.VerifOriginalTargetsC22(c, targets) {
			got[l.PackageName] = true
		}
		for _, p := range sortedSet(wantPkgs) {
			if !got[p] {
				return "cmdline:" + what + ":package-missing", fmt.Sprintf("targets %v blacklist=%v experimental=%v on dirs=%v builds=%v: package %q is not among the original targets %v", targets, w.Blacklist, w.Experimental, w.Dirs, w.Builds, p, got), filepath.Join(p, "BUILD")
			}
		}
		for _, p := range sortedSet(got) {
			if !wantPkgs[p] {
				return "cmdline:" + what + ":package-extra", fmt.Sprintf("targets %v blacklist=%v experimental=%v on dirs=%v builds=%v: package %q is among the original targets but in no pattern's expansion", targets, w.Blacklist, w.Experimental, w.Dirs, w.Builds, p), filepath.Join(p, "BUILD")
			}
		}
		return "", "", ""
	}
	own := pkgsOf(want)
	if c, d, p := check([]core.BuildLabel{labelOf(w.Root)}, own, "single-pattern"); c != "" {
		return c, d, p
	}
	// an earlier pattern rooted at every proper ancestor of this root (the repository root included)
	for a := w.Root; a != ""; {
		a = parentOf(a)
		wa := *w
		wa.Root = a
		if belowPathBlacklisted(&wa, a) || (a != "" && (blacklisted(w.Blacklist, a) || strings.HasPrefix(baseOf(a), "."))) {
			continue // such a root's own expansion is unspecified
		}
		union := pkgsOf(expected(&wa))
		for p := range own {
			union[p] = true
		}
		if c, d, p := check([]core.BuildLabel{labelOf(a), labelOf(w.Root)}, union, "after-a-covering-pattern"); c != "" {
			return c, d, p
		}
		if c, d, p := check([]core.BuildLabel{labelOf(w.Root), labelOf(a)}, union, "before-a-covering-pattern"); c != "" {
			return c, d, p
		}
	}
	return "", "", ""
}

// ---- tree enumeration -------------------------------------------------------------------------------------------------

func candidates(depth int) []string {
	var out []string
	level := []string{""}
	for d := 0; d < depth; d++ {
		var next []string
		for _, p := range level {
			if b := baseOf(p); b == ".git" || b == "plz-out" {
				if d >= 1 && parentOf(p) != "" {
					continue
				}
			}
			for _, n := range dirNames {
				q := n
				if p != "" {
					q = p + "/" + n
				}
				next = append(next, q)
			}
		}
		out = append(out, next...)
		level = next
	}
	sort.Strings(out) // a parent is a string prefix of its children, so it sorts first
	return out
}

// trees returns every parent-closed set of at most maxDirs candidate paths, smallest first.
func trees(maxDirs, depth int) [][]string {
	cands := candidates(depth)
	bySize := make([][][]string, maxDirs+1)
	var rec func(start int, cur []string, in map[string]bool)
	rec = func(start int, cur []string, in map[string]bool) {
		bySize[len(cur)] = append(bySize[len(cur)], append([]string{}, cur...))
		if len(cur) == maxDirs {
			return
		}
		for i := start; i < len(cands); i++ {
			c := cands[i]
			if p := parentOf(c); p != "" && !in[p] {
				continue
			}
			in[c] = true
			rec(i+1, append(cur, c), in)
			delete(in, c)
		}
	}
	rec(0, nil, map[string]bool{})
	var out [][]string
	for _, l := range bySize {
		out = append(out, l...)
	}
	return out
}

// ---- worker -------------------------------------------------------------------------------------------------------------

type viol struct {
	Class   string  `json:"class"`
	Witness witness `json:"witness"`
	Detail  string  `json:"detail"`
	Count   int     `json:"count"`
}

type workerResult struct {
	Evals      int64     `json:"evals"`
	Nontrivial int64     `json:"nontrivial"`
	Trees      int64     `json:"trees"`
	FSVariants int64     `json:"fs_variants"`
	Capped     bool      `json:"capped"`
	Violations []viol    `json:"violations"`
	Samples    []witness `json:"samples"`
}

func size(w *witness) int {
	n := len(w.Dirs)*1000 + len(w.Builds)*100 + (len(w.Blacklist)+len(w.Experimental))*10
	if w.File != "" {
		n += 500
	}
	return n + len(strings.Join(w.Dirs, "")) + len(w.Root)
}

func scratch() string {
	base := os.TempDir()
	if st, err := os.Stat("/dev/shm"); err == nil && st.IsDir() {
		base = "/dev/shm"
	}
	if stale, _ := filepath.Glob(filepath.Join(base, "verif-c22-*")); len(stale) > 0 {
		for _, p := range stale { // left behind by a killed run
			if st, err := os.Stat(p); err == nil && time.Since(st.ModTime()) > 2*time.Hour {
				os.RemoveAll(p)
			}
		}
	}
	d, err := os.MkdirTemp(base, "verif-c22-")
	if err != nil {
		lib.Fatal("scratch: %v", err)
	}
	return d
}

func must(err error) {
	if err != nil {
		lib.Fatal("file system: %v", err)
	}
}

// materialise creates the witness' tree in the current (empty) directory.
func materialise(w *witness) {
	for _, d := range w.Dirs {
		must(os.MkdirAll(d, 0o755))
	}
	for _, b := range w.Builds {
		must(os.WriteFile(filepath.Join(b, "BUILD"), nil, 0o644))
	}
	if w.File != "" {
		must(os.WriteFile(w.File, nil, 0o644))
	}
}

func clearDir() {
	ents, err := os.ReadDir(".")
	must(err)
	for _, e := range ents {
		must(os.RemoveAll(e.Name()))
	}
}

func worker(idx, n int, quick bool, deadline time.Time) {
	dir := scratch()
	defer os.RemoveAll(dir)
	must(os.Chdir(dir))
	maxDirs, depth := 3, 2
	if !quick {
		maxDirs, depth = 4, 3
	}
	all := trees(maxDirs, depth)
	if quick {
		// the quick tier adds the depth-3 chains below the path-anchored blacklist entry a/out (an expansion rooted strictly
		// below a blacklisted path needs three levels)
		for _, leaf := range []string{"a/out/z", "a/out/a", "a/output/z"} {
			parent := leaf[:strings.LastIndex(leaf, "/")]
			all = append(all, []string{"a", parent, leaf})
		}
	}
	res := workerResult{}
	mins := map[string]*viol{}
	for ti := idx; ti < len(all); ti += n {
		if time.Now().After(deadline) {
			res.Capped = true
			break
		}
		dirs := all[ti]
		res.Trees++
		for _, d := range dirs {
			must(os.Mkdir(d, 0o755))
		}
		holders := append([]string{""}, dirs...)
		cur := make([]bool, len(holders))
		for mask := 0; mask < 1<<len(holders); mask++ {
			var builds []string
			for i, h := range holders {
				want := mask&(1<<i) != 0
				if want != cur[i] {
					p := filepath.Join(h, "BUILD")
					if want {
						must(os.WriteFile(p, nil, 0o644))
					} else {
						must(os.Remove(p))
					}
					cur[i] = want
				}
				if want {
					builds = append(builds, h)
				}
			}
			files := []string{""}
			// a file whose name is a BUILD file name only up to case, in a directory WITHOUT a BUILD file: not a package
			// (quick tier: trees of at most two directories)
			for i, h := range holders {
				if !cur[i] && (!quick || len(dirs) <= 2) {
					for _, fn := range []string{"build", "Build.plz"} {
						files = append(files, filepath.Join(h, fn))
					}
				}
			}
			for _, h := range holders {
				if (quick || len(dirs) > 3) && mask != 1<<len(holders)-1 {
					// quick tier, and 4-directory trees of the thorough tier: the plain-file dimension is combined with
					// "every directory has a BUILD file" only
					break
				}
				for _, fn := range fileNames {
					f := filepath.Join(h, fn)
					if !contains(dirs, f) {
						files = append(files, f)
					}
				}
			}
			for _, f := range files {
				if f != "" {
					must(os.WriteFile(f, nil, 0o644))
				}
				res.FSVariants++
				for _, bl := range blacklists {
					for _, ex := range experimentals {
						for _, root := range holders {
							w := &witness{Dirs: dirs, Builds: builds, File: f, Blacklist: bl, Experimental: ex, Root: root}
							if !eligibleRoot(w, root) {
								continue
							}
							res.Evals++
							if len(builds) > 0 && (len(bl) > 0 || len(ex) > 0 || len(dirs) > 0) {
								res.Nontrivial++
							}
							if res.Evals%100003 == 1 && len(res.Samples) < 3 {
								res.Samples = append(res.Samples, *w)
							}
							class, detail, path := judge(w)
							if class == "" {
								continue
							}
							v := mins[class]
							if v == nil {
								v = &viol{Class: class}
								mins[class] = v
							}
							if v.Count < 32 { // re-run the first hits of every class to make sure they reproduce
								if c2, _, p2 := judge(w); c2 != class || p2 != path {
									lib.Fatal("HARNESS-NONDETERMINISM %+v", *w)
								}
							}
							w.Path = path
							v.Count++
							if v.Count == 1 || size(w) < size(&v.Witness) {
								v.Witness, v.Detail = *w, detail
							}
						}
					}
				}
				if f != "" {
					must(os.Remove(f))
				}
			}
		}
		clearDir()
	}
	for _, v := range mins {
		res.Violations = append(res.Violations, *v)
	}
	json.NewEncoder(os.Stdout).Encode(res)
}

// ---- driver -----------------------------------------------------------------------------------------------------------------

func main() {
	if spec := os.Getenv("VERIF_C22_WORKER"); spec != "" {
		lib.Quiet()
		parts := strings.Split(spec, "/")
		i, _ := strconv.Atoi(parts[0])
		n, _ := strconv.Atoi(parts[1])
		secs, _ := strconv.Atoi(parts[3])
		worker(i, n, parts[2] == "quick", time.Now().Add(time.Duration(secs)*time.Second))
		return
	}
	r := lib.Start("C22", "exploration")
	lib.Quiet()
	if r.Replay != "" {
		var w witness
		lib.LoadReplay(r.Replay, &w)
		dir := scratch()
		must(os.Chdir(dir))
		materialise(&w)
		class, detail, path := judge(&w)
		os.Chdir("/")
		os.RemoveAll(dir)
		if class != "" {
			w.Path = path
			r.Violate(class, w, detail)
		}
		r.Finish(lib.Coverage{Evaluations: 1, DistinctNontrivial: 1, Rule: "replay", Samples: []any{w}, Exhaustive: true})
	}
	n := runtime.NumCPU()
	budget := 150 // seconds of enumeration per worker
	if !r.Quick() {
		budget = 900
	}
	results := make([]workerResult, n)
	var wg sync.WaitGroup
	for i := 0; i < n; i++ {
		wg.Add(1)
		go func() {
			defer wg.Done()
			cmd := exec.Command(os.Args[0])
			cmd.Env = append(os.Environ(), fmt.Sprintf("VERIF_C22_WORKER=%d/%d/%s/%d", i, n, r.Tier, budget))
			cmd.SysProcAttr = &syscall.SysProcAttr{Pdeathsig: syscall.SIGKILL} // workers die with the driver
			cmd.Stderr = os.Stderr
			out, err := cmd.Output()
			if err != nil {
				lib.Fatal("worker %d: %v", i, err)
			}
			if err := json.Unmarshal(out, &results[i]); err != nil {
				lib.Fatal("worker %d output: %v", i, err)
			}
		}()
	}
	wg.Wait()
	total := workerResult{}
	mins := map[string]*viol{}
	var samples []any
	for _, res := range results {
		total.Evals += res.Evals
		total.Nontrivial += res.Nontrivial
		total.Trees += res.Trees
		total.FSVariants += res.FSVariants
		total.Capped = total.Capped || res.Capped
		for _, v := range res.Violations {
			v := v
			m := mins[v.Class]
			if m == nil {
				mins[v.Class] = &v
				continue
			}
			m.Count += v.Count
			if size(&v.Witness) < size(&m.Witness) || (size(&v.Witness) == size(&m.Witness) && fmt.Sprint(v.Witness) < fmt.Sprint(m.Witness)) {
				m.Witness, m.Detail = v.Witness, v.Detail
			}
		}
		if len(samples) < 3 && len(res.Samples) > 0 {
			samples = append(samples, res.Samples[len(res.Samples)-1])
		}
	}
	classes := []string{}
	for c := range mins {
		classes = append(classes, c)
	}
	sort.Strings(classes)
	for _, c := range classes {
		r.Violate(c, mins[c].Witness, mins[c].Detail)
		for i := 1; i < mins[c].Count; i++ {
			r.Violate(c, nil, "")
		}
	}
	maxDirs, depth := 3, 2
	if !r.Quick() {
		maxDirs, depth = 4, 3
	}
	r.Assume = []string{
		"a blacklist entry without '/' names a directory at any depth (the code compares it with the base name; the config help gives node_modules as the example); an entry with '/' is a path from the repository root; both match whole components only",
		"directories at or below a configured experimental dir are left out when the expansion starts above it (config help: 'excluded from general detection'); an expansion that is rooted at the experimental dir itself (//exp/...) is owed that directory's packages, as the statement says",
		"expansion roots that are themselves hidden, plz-out or blacklisted are not enumerated (unspecified); symlinks, BUILD.plz and subrepos are outside the bound; the prefix argument of FindAllBuildFiles is always \"\" in the callers and here",
		"FindAllBuildFiles is run in-process with the tree root as working directory, exactly as findOriginalTask calls it (rootPath = package name)",
	}
	r.Finish(lib.Coverage{
		Evaluations:        int(total.Evals),
		DistinctNontrivial: int(total.Nontrivial),
		Rule:               fmt.Sprintf("every parent-closed tree of <=%d directories, depth <=%d, over names %v; x every subset of {root}+dirs holding a BUILD file; x no plain file or one plain file named %v in any directory (quick tier and the 4-directory trees of the thorough tier: the plain file only together with the all-BUILD subset); x blacklist in %v; x experimental in %v; x every eligible expansion root (repo root or any directory of the tree); one evaluation = one real walk compared with the reference; non-trivial = at least one BUILD file and a non-empty tree or configuration", maxDirs, depth, dirNames, fileNames, blacklists, experimentals),
		Samples:            samples,
		Exhaustive:         !total.Capped,
		Extra:              map[string]any{"trees": total.Trees, "file_system_variants": total.FSVariants, "worker_processes": n},
	})
}

// C31: concurrent plz invocations on one repository do not corrupt outputs.
// Two real plz processes (built with the file-system seam) run on one repository. Process A is paused immediately
// before its k-th mutating file-system operation, for EVERY k; while it is paused process B runs until it finishes or
// blocks on a lock A holds (seen in /proc/<pid>/task/*/stack); then A resumes and both finish. This is the set of
// schedules with one preemption of A at file-system-operation granularity (B atomic in the gap), both role orders being
// symmetric. Oracle: both exit 0, and plz-out equals a clean build.
package main

import (
	"bytes"
	"fmt"
	"os"
	"os/exec"
	"path/filepath"
	"strings"
	"sync"
	"sync/atomic"
	"syscall"
	"time"

	"github.com/thought-machine/please/verifharness/hist"
	"github.com/thought-machine/please/verifharness/lib"
)

type witness struct {
	Family  string   `json:"family"`
	Pre     []string `json:"pre_history"`
	K       int      `json:"pause_before_op"`
	Op      string   `json:"op"`
	Plan    string   `json:"pause_point,omitempty"` // i:op path (run directory as @)
	BBuilds string   `json:"b_builds,omitempty"`    // the command line of invocation B if it differs from A's
}

type proc struct {
	cmd  *exec.Cmd
	out  bytes.Buffer
	done chan struct{}
	exit int
}

func start(bin, dir string, args, env []string) *proc {
	p := &proc{done: make(chan struct{})}
	p.cmd = exec.Command(bin, args...)
	p.cmd.Dir = filepath.Join(dir, "repo")
	p.cmd.Env = append([]string{"PATH=/usr/local/bin:/usr/bin:/bin", "HOME=" + dir, "LANG=C", "GOMAXPROCS=2", "GOGC=off"}, env...)
	p.cmd.Stdout, p.cmd.Stderr = &p.out, &p.out
	p.cmd.SysProcAttr = &syscall.SysProcAttr{Setpgid: true}
	if err := p.cmd.Start(); err != nil {
		lib.Fatal("start: %s", err)
	}
	go func() {
		err := p.cmd.Wait()
		if err != nil {
			if ee, ok := err.(*exec.ExitError); ok {
				p.exit = ee.ExitCode()
			} else {
				p.exit = -2
			}
		}
		close(p.done)
	}()
	return p
}

func (p *proc) finished() bool {
	select {
	case <-p.done:
		return true
	default:
		return false
	}
}

// blockedOnFlock reports whether some thread of the process sleeps in flock().
func blockedOnFlock(pid int) bool {
	tasks, _ := filepath.Glob(fmt.Sprintf("/proc/%d/task/*/stack", pid))
	for _, t := range tasks {
		if b, err := os.ReadFile(t); err == nil && (bytes.Contains(b, []byte("flock")) || bytes.Contains(b, []byte("locks_lock"))) {
			return true
		}
	}
	return false
}

func main() {
	r := lib.Start("C31", "model_checking")
	plz := filepath.Join(lib.VerifRoot, ".work", "bin", "plz")
	if p := os.Getenv("VERIF_PLZ"); p != "" {
		plz = p // the driver says which binary it built from the repository under test
	}
	plzVos := os.Getenv("VERIF_PLZ_VOS")
	if plzVos == "" {
		lib.Fatal("VERIF_PLZ_VOS not set")
	}
	root := filepath.Join(lib.VerifRoot, ".work", "hist", "C31")
	os.RemoveAll(root)
	defer os.RemoveAll(root)
	noCache := "[cache]\ndir =\n"
	type scenario struct {
		fam  hist.Family
		pre  []string // edits (with complete builds) before the concurrent builds; last edit is applied without a build
		step int
		famB hist.Family // what invocation B is asked to build, if not the same as A
		famP hist.Family // what the builds of the pre-history are asked to build, if not the same as A
	}
	chain, dirs := hist.Chain{Threads: "2"}, hist.Dirs{Threads: "2"}
	// two filegroups exporting the same generated files: A builds one, B the other (different per-target locks), and both build both
	sharedAB := scenario{hist.SharedFG{Only: "a"}, []string{"init"}, 1, hist.SharedFG{Only: "b"}, nil}
	// the same after both were built once and the generated file changed: the shared outputs exist and are replaced
	sharedAB2 := scenario{hist.SharedFG{Only: "a"}, []string{"init", "v=2"}, 1, hist.SharedFG{Only: "b"}, hist.SharedFG{}}
	sharedBoth := scenario{hist.SharedFG{}, []string{"init"}, 1, nil, nil}
	scs := []scenario{{chain, []string{"init"}, 1, nil, nil}, {dirs, []string{"init"}, 2, nil, nil}, sharedAB, sharedAB2}
	if !r.Quick() {
		scs = []scenario{{chain, []string{"init"}, 1, nil, nil}, {dirs, []string{"init"}, 1, nil, nil}, {chain, []string{"init", "a_txt=y"}, 1, nil, nil}, {dirs, []string{"init", "d_txt=y"}, 1, nil, nil}, {dirs, []string{"init", "g_binary=True"}, 1, nil, nil}, sharedAB, sharedAB2, sharedBoth}
	}
	if r.Replay != "" {
		var w witness
		lib.LoadReplay(r.Replay, &w)
		var f hist.Family = chain
		if w.Family == "dirs" {
			f = dirs
		}
		scs = []scenario{{f, w.Pre, 1, nil, nil}}
		if w.Family == "sharedfg" {
			scs = []scenario{sharedAB}
			if len(w.Pre) > 1 {
				scs = []scenario{sharedAB2}
			}
			if w.BBuilds == "" {
				scs = []scenario{sharedBoth}
			}
		}
	}
	var execs, states, bBlocked, bFinished, noVerdict int64
	threeStepRuns := 0
	replayThree := false
	if r.Replay != "" {
		var w3 witness3
		lib.LoadReplay(r.Replay, &w3)
		replayThree = w3.Kind == "three-step"
	}
	var samples lib.Samples
	exhaustive := true
	for si, sc := range scs {
		e := hist.NewEngine(plz, filepath.Join(root, fmt.Sprintf("s%d", si)), sc.fam)
		src := sc.fam.Initial()
		pre := filepath.Join(e.Root, "pre")
		os.MkdirAll(filepath.Join(pre, "repo"), 0o755)
		for i, name := range sc.pre {
			if name != "init" {
				for _, ed := range sc.fam.Edits(src) {
					if ed.Name == name {
						src = ed.Src
					}
				}
			}
			hist.Materialise(sc.fam, src, filepath.Join(pre, "repo"), noCache)
			if i < len(sc.pre)-1 {
				ep := e
				if sc.famP != nil {
					ep = &hist.Engine{Plz: e.Plz, Root: e.Root, Workers: e.Workers, Fam: sc.famP}
				}
				if o := ep.RunWith(plz, pre, src, nil); o.Exit != 0 {
					lib.Fatal("pre-state build failed: %s", o.Output)
				}
			}
		}
		clean := e.CleanObs(src, noCache)
		args, _ := sc.fam.Args(src)
		argsB := args
		if sc.famB != nil {
			argsB, _ = sc.famB.Args(src)
		}
		// dry run: number of operations of a lone build from this state
		dry := filepath.Join(e.Root, "dry")
		hist.CopyTree(pre, dry)
		tf := filepath.Join(e.Root, "dry.trace")
		if o := e.RunWith(plzVos, dry, src, []string{"VOS_TRACE=" + tf}); o.Exit != 0 {
			lib.Fatal("dry run failed: %s", o.Output)
		}
		// pause points are named by operation identity (i-th occurrence of "op path", the run directory normalised): the
		// order of operations inside one invocation differs between runs, their identity does not
		tb, _ := os.ReadFile(tf)
		var keys []string
		count := map[string]int{}
		for _, l := range strings.Split(strings.TrimSpace(string(tb)), "\n") {
			f := strings.SplitN(l, " ", 2)
			if len(f) != 2 {
				continue
			}
			k := strings.ReplaceAll(f[1], dry, "@")
			count[k]++
			keys = append(keys, fmt.Sprintf("%d:%s", count[k], k))
		}
		os.RemoveAll(dry)
		ks := []int{}
		for k := 0; k < len(keys); k += sc.step {
			ks = append(ks, k)
		}
		if sc.famP != nil {
			// Scenarios in which shared output files are replaced run under the three-step schedules only: there every
			// phase has exactly one running process. (With a single pause both processes run freely after the release and
			// can meet in the listed remove-then-link window by themselves - a verdict that would depend on timing.)
			ks = nil
		}
		if r.Replay != "" {
			var w witness
			lib.LoadReplay(r.Replay, &w)
			ks = nil
			for i, k := range keys {
				if k == w.Plan {
					ks = []int{i}
				}
			}
		}
		ch := make(chan int)
		var wg sync.WaitGroup
		for w := 0; w < 3; w++ {
			wg.Add(1)
			go func() {
				defer wg.Done()
				for k := range ch {
					dir := filepath.Join(e.Root, fmt.Sprintf("k%d", k))
					hist.CopyTree(pre, dir)
					pd := filepath.Join(dir, "pause")
					os.MkdirAll(pd, 0o755)
					a := start(plzVos, dir, args, []string{"VOS_PLAN=pauseop@" + keys[k], "VOS_NORM=" + dir, "VOS_PAUSE_DIR=" + pd})
					// wait until A reaches its pause point (or finishes: fewer ops this time)
					deadline := time.Now().Add(120 * time.Second)
					for !a.finished() && time.Now().Before(deadline) {
						if _, err := os.Stat(filepath.Join(pd, "reached")); err == nil {
							break
						}
						time.Sleep(3 * time.Millisecond)
					}
					opb, _ := os.ReadFile(filepath.Join(pd, "reached"))
					wit := witness{Family: sc.fam.Name(), Pre: sc.pre, K: k, Plan: keys[k], Op: strings.TrimSpace(string(opb))}
					if sc.famB != nil {
						wit.BBuilds = strings.Join(argsB, " ")
					}
					samples.Add(func() any { return wit })
					b := start(plzVos, dir, argsB, nil)
					for !b.finished() && time.Now().Before(deadline) {
						if blockedOnFlock(b.cmd.Process.Pid) {
							atomic.AddInt64(&bBlocked, 1)
							break
						}
						time.Sleep(5 * time.Millisecond)
					}
					if b.finished() {
						atomic.AddInt64(&bFinished, 1)
					}
					os.WriteFile(filepath.Join(pd, "go"), nil, 0o644)
					hung := false
					for _, p := range []*proc{a, b} {
						select {
						case <-p.done:
						case <-time.After(240 * time.Second):
							// a wall-clock horizon alone is never an alarm: it is a deadlock only if both processes sleep in flock()
							if !a.finished() && !b.finished() && blockedOnFlock(a.cmd.Process.Pid) && blockedOnFlock(b.cmd.Process.Pid) {
								hung = true
							} else {
								atomic.AddInt64(&noVerdict, 1)
							}
							syscall.Kill(-p.cmd.Process.Pid, syscall.SIGKILL)
							<-p.done
						}
					}
					atomic.AddInt64(&execs, 1)
					atomic.AddInt64(&states, 2)
					os.RemoveAll(pd)
					opKind := "end"
					if f := strings.Fields(wit.Op); len(f) > 1 {
						opKind = f[1]
					}
					if !hung && (a.exit == -1 || b.exit == -1) && atomic.LoadInt64(&noVerdict) > 0 {
						os.RemoveAll(dir)
						continue // horizon hit without evidence of a deadlock: no verdict for this schedule
					}
					switch {
					case hung:
						r.Violate(fmt.Sprintf("%s:hang:pause-before-%s", sc.fam.Name(), opKind), wit, "both invocations sleep in flock() after 240s (deadlock)\nA:\n"+a.out.String()+"\nB:\n"+b.out.String())
					case a.exit != 0 || b.exit != 0:
						r.Violate(fmt.Sprintf("%s:invocation-failed:pause-before-%s", sc.fam.Name(), opKind), wit, fmt.Sprintf("exit statuses A=%d B=%d\nA:\n%s\nB:\n%s", a.exit, b.exit, a.out.String(), b.out.String()))
					default:
						obs := e.RunWith("/bin/true", dir, src, nil) // observe plz-out without building
						if d := hist.DiffOuts(obs, clean); d != "" {
							r.Violate(fmt.Sprintf("%s:outputs-differ:pause-before-%s", sc.fam.Name(), opKind), wit, "final plz-out differs from a clean build:\n"+d)
						}
					}
					os.RemoveAll(dir)
				}
			}()
		}
		for _, k := range ks {
			if r.OutOfTime() {
				exhaustive = false
				break
			}
			ch <- k
		}
		close(ch)
		wg.Wait()
		if sc.famB != nil && (r.Replay == "" || replayThree) {
			n3, ex3 := threeStep(r, e, sc.fam, sc.pre, pre, src, args, argsB, keys, clean, plzVos)
			atomic.AddInt64(&execs, int64(n3))
			atomic.AddInt64(&states, int64(3*n3))
			threeStepRuns += n3
			if !ex3 {
				exhaustive = false
			}
		}
		os.RemoveAll(e.Root)
	}
	r.Assume = []string{
		"granularity: mutating file-system operations of plz itself (os.* / xattr.* in src/fs, cache, build, core, test); instruction-level races inside one operation or inside the kernel are out of reach",
		"schedules: process A preempted once, before each of its operations in turn; B runs in the gap until it exits or sleeps in flock() (detected from /proc/<pid>/task/*/stack); with two invocations of the same command the two role assignments are symmetric",
		"three-step schedules (scenarios in which A and B build different targets that share output files): A is preempted twice (before operation i and before a later operation j on the shared output paths), B once (before each of its operations - quick: its operations on the shared output files -, right after each of its link/rename operations, or not at all) in between: A..i | B..b | A i..j | B b..end | A j..end; quick: i = each removal of a shared file, j = the operation that re-creates it; thorough: every pair i<j",
		"each invocation uses -n 2, so operation order inside one process varies between runs: pause points are named by operation identity (i-th occurrence of `op path` of a lone dry run), not by number; a pause point that an invocation does not reach lets it run to its end (B then runs after A)",
	}
	r.Finish(lib.Coverage{
		Evaluations:        int(execs),
		DistinctNontrivial: int(bBlocked + bFinished),
		Rule:               "for each scenario every pause point of invocation A (before each distinct mutating file-system operation occurrence of a lone dry run) with invocation B started in the gap; non-trivial = B really ran in the gap (finished, or blocked on a lock A holds)",
		Samples:            samples.List(),
		States:             int(states),
		Transitions:        int(execs),
		TracesValidated:    int(execs),
		Exhaustive:         exhaustive && noVerdict == 0,
		Extra:              map[string]any{"schedules_without_verdict_horizon_hit": noVerdict, "b_finished_in_gap": bFinished, "b_blocked_on_a_lock_held_by_a": bBlocked, "scenarios": len(scs), "three_step_schedules": threeStepRuns},
	})
}

// sharedOp reports whether a pause-point key names an operation on one of the output files the two invocations share.
func sharedOp(key string) bool { return strings.Contains(key, "plz-out/gen/p/") }

func opOf(key string) string {
	if f := strings.Fields(key[strings.IndexByte(key, ':')+1:]); len(f) > 0 {
		return f[0]
	}
	return ""
}

func lastPath(key string) string {
	f := strings.Fields(key)
	return f[len(f)-1]
}

func waitReached(p *proc, pd string, also func() bool, horizon time.Duration) {
	deadline := time.Now().Add(horizon)
	for !p.finished() && time.Now().Before(deadline) {
		if _, err := os.Stat(filepath.Join(pd, "reached")); err == nil {
			return
		}
		if also != nil && also() {
			return
		}
		time.Sleep(3 * time.Millisecond)
	}
}

type witness3 struct {
	Family  string   `json:"family"`
	Pre     []string `json:"pre_history"`
	Kind    string   `json:"schedule"` // three-step
	A1      string   `json:"a_first_pause_point"`
	A2      string   `json:"a_second_pause_point"`
	B       string   `json:"b_pause_point,omitempty"`
	BBuilds string   `json:"b_builds"`
}

// threeStep: A..i | B..b | A i..j | B b..end | A j..end over the operations on the shared output files.
func threeStep(r *lib.Run, e *hist.Engine, fam hist.Family, preHist []string, pre string, src hist.Src, args, argsB, keys []string, clean *hist.Obs, plzVos string) (int, bool) {
	// B's own operations, from a lone dry run of B
	dry := filepath.Join(e.Root, "dryB")
	hist.CopyTree(pre, dry)
	tf := filepath.Join(e.Root, "dryB.trace")
	bp := start(plzVos, dry, argsB, []string{"VOS_TRACE=" + tf})
	<-bp.done
	if bp.exit != 0 {
		lib.Fatal("dry run of B failed: %s", bp.out.String())
	}
	tb, _ := os.ReadFile(tf)
	keysB := []string{""}
	count := map[string]int{}
	for _, l := range strings.Split(strings.TrimSpace(string(tb)), "\n") {
		f := strings.SplitN(l, " ", 2)
		if len(f) != 2 {
			continue
		}
		k := strings.ReplaceAll(f[1], dry, "@")
		count[k]++
		key := fmt.Sprintf("%d:%s", count[k], k)
		if !r.Quick() || sharedOp(key) {
			keysB = append(keysB, key) // thorough: every operation of B; quick: its operations on the shared files
		}
		if op := opOf(key); op == "link" || op == "rename" {
			keysB = append(keysB, "after:"+key) // right after the file was put in place, before B reads it
		}
	}
	os.RemoveAll(dry)
	if os.Getenv("C31_DEBUG") != "" {
		for _, k := range keys {
			fmt.Fprintf(os.Stderr, "A-key %q shared=%v op=%q last=%q\n", k, sharedOp(k), opOf(k), lastPath(k))
		}
		fmt.Fprintf(os.Stderr, "B-keys %q\n", keysB)
	}
	type sched struct{ a1, a2, b string }
	var scheds []sched
	for i, k1 := range keys {
		if !sharedOp(k1) {
			continue
		}
		for j := i + 1; j < len(keys); j++ {
			k2 := keys[j]
			if !sharedOp(k2) {
				continue
			}
			if r.Quick() && !(opOf(k1) == "removeall" && opOf(k2) != "removeall" && lastPath(k2) == lastPath(k1)) {
				continue
			}
			for _, b := range keysB {
				scheds = append(scheds, sched{k1, k2, b})
			}
			if r.Quick() {
				break // the first operation that re-creates the removed file
			}
		}
	}
	if r.Replay != "" {
		var w witness3
		lib.LoadReplay(r.Replay, &w)
		scheds = []sched{{w.A1, w.A2, w.B}}
	}
	var mu sync.Mutex
	n, complete := 0, true
	ch := make(chan sched)
	var wg sync.WaitGroup
	for w := 0; w < 3; w++ {
		wg.Add(1)
		go func() {
			defer wg.Done()
			for sc := range ch {
				mu.Lock()
				n++
				id := n
				mu.Unlock()
				dir := filepath.Join(e.Root, fmt.Sprintf("t%d", id))
				hist.CopyTree(pre, dir)
				pa1, pa2, pb := filepath.Join(dir, "pa1"), filepath.Join(dir, "pa2"), filepath.Join(dir, "pb")
				for _, d := range []string{pa1, pa2, pb} {
					os.MkdirAll(d, 0o755)
				}
				t0 := time.Now()
				dbg := func(what string) {
					if os.Getenv("C31_DEBUG") != "" {
						fmt.Fprintf(os.Stderr, "[%d] %6.2fs %s\n", id, time.Since(t0).Seconds(), what)
					}
				}
				dbg("start a1=" + sc.a1 + " a2=" + sc.a2 + " b=" + sc.b)
				a := start(plzVos, dir, args, []string{"VOS_PLAN=pauseop@" + sc.a1, "VOS_NORM=" + dir, "VOS_PAUSE_DIR=" + pa1, "VOS_PAUSE2=" + sc.a2, "VOS_PAUSE_DIR2=" + pa2})
				waitReached(a, pa1, nil, 120*time.Second)
				dbg("A at P1 or finished")
				var envB []string
				if strings.HasPrefix(sc.b, "after:") {
					envB = []string{"VOS_PAUSE_AFTER=" + strings.TrimPrefix(sc.b, "after:"), "VOS_NORM=" + dir, "VOS_PAUSE_DIR_AFTER=" + pb}
				} else if sc.b != "" {
					envB = []string{"VOS_PLAN=pauseop@" + sc.b, "VOS_NORM=" + dir, "VOS_PAUSE_DIR=" + pb}
				}
				b := start(plzVos, dir, argsB, envB)
				waitReached(b, pb, func() bool { return blockedOnFlock(b.cmd.Process.Pid) }, 120*time.Second)
				dbg("B at PB / finished / blocked")
				os.WriteFile(filepath.Join(pa1, "go"), nil, 0o644)
				waitReached(a, pa2, func() bool { return blockedOnFlock(a.cmd.Process.Pid) }, 120*time.Second)
				dbg("A at P2 / finished / blocked")
				os.WriteFile(filepath.Join(pb, "go"), nil, 0o644)
				waitReached(b, filepath.Join(dir, "never"), func() bool { return blockedOnFlock(b.cmd.Process.Pid) }, 120*time.Second)
				dbg("B finished / blocked")
				os.WriteFile(filepath.Join(pa2, "go"), nil, 0o644)
				verdict := true
				for _, p := range []*proc{a, b} {
					select {
					case <-p.done:
					case <-time.After(240 * time.Second):
						verdict = false
						syscall.Kill(-p.cmd.Process.Pid, syscall.SIGKILL)
						<-p.done
					}
				}
				for _, d := range []string{pa1, pa2, pb} {
					os.RemoveAll(d)
				}
				wit := witness3{Family: fam.Name(), Pre: preHist, Kind: "three-step", A1: sc.a1, A2: sc.a2, B: sc.b, BBuilds: strings.Join(argsB, " ")}
				cls := fmt.Sprintf("%s:three-step:A-between-%s-and-%s:B-%s", fam.Name(), opOf(sc.a1), opOf(sc.a2), map[bool]string{true: "not-paused", false: "paused-" + map[bool]string{true: "after-", false: "before-"}[strings.HasPrefix(sc.b, "after:")] + opOf(strings.TrimPrefix(sc.b, "after:"))}[sc.b == ""])
				switch {
				case !verdict:
					mu.Lock()
					complete = false // horizon hit: no verdict for this schedule
					mu.Unlock()
				case a.exit != 0 || b.exit != 0:
					r.Violate(strings.Replace(cls, ":three-step:", ":three-step:invocation-failed:", 1), wit, fmt.Sprintf("A runs up to its `%s`, B up to its `%s`, A on up to its `%s`, B to its end, A to its end: exit statuses A=%d B=%d\nA:\n%s\nB:\n%s", sc.a1, sc.b, sc.a2, a.exit, b.exit, a.out.String(), b.out.String()))
				default:
					obs := e.RunWith("/bin/true", dir, src, nil)
					if d := hist.DiffOuts(obs, clean); d != "" {
						r.Violate(strings.Replace(cls, ":three-step:", ":three-step:outputs-differ:", 1), wit, "final plz-out differs from a clean build:\n"+d)
					}
				}
				os.RemoveAll(dir)
			}
		}()
	}
	for _, sc := range scheds {
		if r.OutOfTime() {
			complete = false
			break
		}
		ch <- sc
	}
	close(ch)
	wg.Wait()
	return n, complete
}

package hist

import (
	"fmt"
	"os"
	"path/filepath"
	"sort"
	"strings"
)

const logPfx = "echo %s >> ../../../../../actions.log; "

// field describes one field of a family's source record and its domain (first value = initial).
type field struct {
	name string
	dom  []string
	kind string
}

func editsOver(fields []field, s Src, ok func(Src) bool) []Edit {
	var es []Edit
	for _, f := range fields {
		for _, v := range f.dom {
			if s[f.name] == v {
				continue
			}
			n := s.Clone()
			n[f.name] = v
			if ok != nil && !ok(n) {
				continue
			}
			es = append(es, Edit{Name: f.name + "=" + v, Src: n, Kind: f.kind})
		}
	}
	return es
}

func initialOf(fields []field) Src {
	s := Src{}
	for _, f := range fields {
		s[f.name] = f.dom[0]
	}
	return s
}

// RmPlzOut is the "rm -rf plz-out" edit.
func RmPlzOut(s Src) Edit {
	return Edit{Name: "rm-plz-out", Src: s.Clone(), Kind: "rm-plz-out", Pre: func(repo string) { os.RemoveAll(filepath.Join(repo, "plz-out")) }}
}

// Noop is "build again without touching anything".
func Noop(s Src) Edit { return Edit{Name: "noop", Src: s.Clone(), Kind: "noop"} }

// ---------------------------------------------------------------------------------------------
// Chain: file outputs, a -> b -> c, with cmd/outs/env/deps/srcs edits and target removal.

type Chain struct {
	Threads  string
	WithRm   bool
	WithNoop bool
	Config   string
}

var chainFields = []field{
	{"a_txt", []string{"x", "y"}, "content"},
	{"a_cmd", []string{"0", "1", "2"}, "cmd"},
	{"a_out", []string{"a.out", "a2.out"}, "outs"},
	{"b", []string{"1", "0"}, "add-remove-target"},
	{"b_env", []string{"-", "1", "2"}, "env"},
	{"c_dep", []string{"b", "a"}, "deps"},
	{"c_txt", []string{"x", "y", "-"}, "srcs"},
	{"a_opt", []string{"1", "0"}, "optional-output"},
}

func (c Chain) Name() string { return "chain" }
func (c Chain) Initial() Src { return initialOf(chainFields) }
func (c Chain) Edits(s Src) []Edit {
	es := editsOver(chainFields, s, func(n Src) bool { return n["b"] == "1" || n["c_dep"] == "a" })
	if c.WithNoop {
		es = append(es, Noop(s))
	}
	if c.WithRm {
		es = append(es, RmPlzOut(s))
		// moving the tree to another state together with removing plz-out (switch branch + clean) in one step
		for _, v := range []string{"0", "1"} {
			if s["a_opt"] != v {
				n := s.Clone()
				n["a_opt"] = v
				e := RmPlzOut(n)
				e.Name, e.Kind = "rm-plz-out+a_opt="+v, "rm-plz-out+optional-output"
				es = append(es, e)
			}
		}
	}
	return es
}

func (c Chain) Files(s Src) map[string]string {
	var b strings.Builder
	acmd := map[string]string{"0": catCmd, "1": catCmd + "; true", "2": catCmd + "; echo extra >> $OUT"}[s["a_cmd"]]
	if s["a_opt"] == "1" {
		acmd += "; echo opt > a.opt"
	}
	fmt.Fprintf(&b, "genrule(name=\"a\", srcs=[\"a.txt\"], outs=[%q], optional_outs=[\"*.opt\"], cmd=%q)\n", s["a_out"], fmt.Sprintf(logPfx, "//p:a")+acmd)
	if s["b"] == "1" {
		env := ""
		if s["b_env"] != "-" {
			env = fmt.Sprintf(", env={\"E\": %q}", s["b_env"])
		}
		fmt.Fprintf(&b, "genrule(name=\"b\", srcs=[\":a\"], outs=[\"b.out\"]%s, cmd=%q)\n", env, fmt.Sprintf(logPfx, "//p:b")+catCmd+"; echo b${E:-} >> $OUT")
	}
	srcs := fmt.Sprintf("\":%s\"", s["c_dep"])
	if s["c_txt"] != "-" {
		srcs += ", \"c.txt\""
	}
	fmt.Fprintf(&b, "genrule(name=\"c\", srcs=[%s], outs=[\"c.out\"], cmd=%q)\n", srcs, fmt.Sprintf(logPfx, "//p:c")+catCmd)
	fs := map[string]string{"p/BUILD": b.String(), "p/a.txt": s["a_txt"] + "\n"}
	if s["c_txt"] != "-" {
		fs["p/c.txt"] = s["c_txt"] + "\n"
	}
	if c.Config != "" {
		fs[".plzconfig"] = plzconfig + c.Config
	}
	return fs
}

func (c Chain) Targets(s Src) []Target {
	aouts := []string{"plz-out/gen/p/" + s["a_out"]}
	if s["a_opt"] == "1" {
		// only when the current definition produces it: a stale optional output left behind by an earlier definition is
		// not an output of the target (just as a renamed declared output leaves its old file behind)
		aouts = append(aouts, "plz-out/gen/p/a.opt")
	}
	ts := []Target{{"//p:a", aouts}, {"//p:c", []string{"plz-out/gen/p/c.out"}}}
	if s["b"] == "1" {
		ts = append(ts, Target{"//p:b", []string{"plz-out/gen/p/b.out"}})
	}
	return ts
}

func (c Chain) Args(s Src) ([]string, []string) {
	n := c.Threads
	if n == "" {
		n = "1"
	}
	return []string{"build", "--plain_output", "-v", "warning", "-n", n, "//p:all"}, nil
}

// ChainSig is the reference for C03: per target, the signature of everything its command may legitimately depend on
// (definition text, bytes of its source files, bytes of its dependencies' outputs as a clean build produces them).
func (c Chain) Sigs(s Src, clean *Obs) map[string]string {
	files := c.Files(s)
	defs := map[string]string{}
	for _, l := range strings.Split(files["p/BUILD"], "\n") {
		for _, n := range []string{"a", "b", "c"} {
			if strings.Contains(l, "name=\""+n+"\"") {
				defs["//p:"+n] = l
			}
		}
	}
	sig := map[string]string{}
	sig["//p:a"] = defs["//p:a"] + "|" + files["p/a.txt"]
	if s["b"] == "1" {
		sig["//p:b"] = defs["//p:b"] + "|" + clean.Outs["//p:a"]
	}
	sig["//p:c"] = defs["//p:c"] + "|" + files["p/c.txt"] + "|" + clean.Outs["//p:"+s["c_dep"]]
	return sig
}

// ---------------------------------------------------------------------------------------------
// Dirs: directory outputs, a source directory behind a filegroup, text_file, binary flag.

type Dirs struct {
	Threads  string
	WithRm   bool
	WithNoop bool
	Config   string
}

var dirsFields = []field{
	{"d_txt", []string{"x", "y"}, "content"},
	{"d_fname", []string{"f1", "f2"}, "rename-in-output-dir"},
	{"d_extra", []string{"0", "1", "2"}, "output-dir-shape"},
	{"d_link", []string{"0", "1"}, "output-dir-symlink"},
	{"s_name", []string{"x.txt", "y.txt"}, "rename-in-source-dir"},
	{"s_txt", []string{"s", "t"}, "content"},
	{"t_content", []string{"hello", "world"}, "text_file"},
	{"g_binary", []string{"False", "True"}, "binary"},
	{"f_txt", []string{"x", "y", "z"}, "content-behind-file-filegroup"},
}

func (c Dirs) Name() string { return "dirs" }
func (c Dirs) Initial() Src { return initialOf(dirsFields) }
func (c Dirs) Edits(s Src) []Edit {
	es := editsOver(dirsFields, s, nil)
	if c.WithNoop {
		es = append(es, Noop(s))
	}
	if c.WithRm {
		es = append(es, RmPlzOut(s))
	}
	return es
}

// listCmd lists names, kinds and file contents of everything under $SRCS using shell builtins only
// (process creation is the dominant cost of a transition in this sandbox).
const listCmd = "shopt -s globstar nullglob dotglob; for s in $SRCS; do for f in $s $s/**; do if [ -L $f ]; then echo l $f; elif [ -d $f ]; then echo d $f; else echo f $f; while read -r l; do echo \" $l\"; done < $f; fi; done; done > $OUT"

const catCmd = "for s in $SRCS; do while read -r l; do echo \"$l\"; done < $s; done > $OUT"

func (c Dirs) Files(s Src) map[string]string {
	var b strings.Builder
	dcmd := "mkdir $OUT; read -r x < $SRCS; echo $x > $OUT/" + s["d_fname"]
	switch s["d_extra"] {
	case "1":
		dcmd += "; : > $OUT/empty"
	case "2":
		dcmd = "mkdir -p $OUT/sub; read -r x < $SRCS; echo $x > $OUT/" + s["d_fname"]
	}
	if s["d_link"] == "1" {
		dcmd += "; ln -s " + s["d_fname"] + " $OUT/l"
	}
	fmt.Fprintf(&b, "genrule(name=\"d\", srcs=[\"d.txt\"], outs=[\"dir\"], cmd=%q)\n", fmt.Sprintf(logPfx, "//p:d")+dcmd)
	fmt.Fprintf(&b, "genrule(name=\"e\", srcs=[\":d\"], outs=[\"e.out\"], cmd=%q)\n", fmt.Sprintf(logPfx, "//p:e")+listCmd)
	fmt.Fprintf(&b, "filegroup(name=\"fg\", srcs=[\"sdir\"])\n")
	fmt.Fprintf(&b, "text_file(name=\"t\", content=%q, out=\"t.txt\")\n", s["t_content"]+"\n")
	fmt.Fprintf(&b, "genrule(name=\"g\", srcs=[\":fg\", \":t\"], outs=[\"g.out\"], binary=%s, cmd=%q)\n", s["g_binary"], fmt.Sprintf(logPfx, "//p:g")+listCmd)
	fmt.Fprintf(&b, "filegroup(name=\"ff\", srcs=[\"f.txt\"], visibility=[\"PUBLIC\"])\n")
	fmt.Fprintf(&b, "genrule(name=\"h\", srcs=[\":ff\"], outs=[\"h.out\"], cmd=%q)\n", fmt.Sprintf(logPfx, "//p:h")+catCmd)
	// a declared output that is itself a symlink (lib.so -> lib.so.1): its recorded rule hash lives in a side file, not in an xattr
	// outputs known only after the build (output_dirs): the list of outputs is kept in the target's metadata file
	fmt.Fprintf(&b, "genrule(name=\"od\", srcs=[\"d.txt\"], output_dirs=[\"_o\"], cmd=%q)\n", fmt.Sprintf(logPfx, "//p:od")+"mkdir _o; read -r x < $SRCS; echo $x > _o/od1.txt; echo $x$x > _o/od2.txt; echo $x$x$x > _o/od3.txt")
	// two regular output files (each carries the recorded hashes; a cache restore links them one after the other)
	fmt.Fprintf(&b, "genrule(name=\"m\", srcs=[\"d.txt\"], outs=[\"m1.out\", \"m2.out\"], cmd=%q)\n", fmt.Sprintf(logPfx, "//p:m")+"read -r x < $SRCS; echo $x > m1.out; echo $x$x > m2.out")
	fmt.Fprintf(&b, "genrule(name=\"k\", srcs=[\"d.txt\"], outs=[\"k.txt\", \"k.lnk\"], cmd=%q)\n", fmt.Sprintf(logPfx, "//p:k")+"read -r x < $SRCS; echo $x > k.txt; ln -s k.txt k.lnk")
	// another package re-exports the filegroup (its source is then a file under plz-out that is still the user's source inode)
	p2 := "filegroup(name=\"ff2\", srcs=[\"//p:ff\"])\n" + fmt.Sprintf("genrule(name=\"h2\", srcs=[\":ff2\"], outs=[\"h2.out\"], cmd=%q)\n", fmt.Sprintf(logPfx, "//p2:h2")+catCmd)
	fs := map[string]string{"p2/BUILD": p2, "p/BUILD": b.String(), "p/d.txt": s["d_txt"] + "\n", "p/sdir/" + s["s_name"]: s["s_txt"] + "\n", "p/f.txt": s["f_txt"] + "\n"}
	if c.Config != "" {
		fs[".plzconfig"] = plzconfig + c.Config
	}
	return fs
}

func (c Dirs) Targets(s Src) []Target {
	g := "plz-out/gen/p/g.out"
	if s["g_binary"] == "True" {
		g = "plz-out/bin/p/g.out"
	}
	return []Target{
		{"//p:d", []string{"plz-out/gen/p/dir"}},
		{"//p:e", []string{"plz-out/gen/p/e.out"}},
		{"//p:fg", []string{"plz-out/gen/p/sdir"}},
		{"//p:t", []string{"plz-out/gen/p/t.txt"}},
		{"//p:g", []string{g}},
		{"//p:ff", []string{"plz-out/gen/p/f.txt"}},
		{"//p:h", []string{"plz-out/gen/p/h.out"}},
		{"//p:k", []string{"plz-out/gen/p/k.txt", "plz-out/gen/p/k.lnk"}},
		{"//p:m", []string{"plz-out/gen/p/m1.out", "plz-out/gen/p/m2.out"}},
		{"//p:od", []string{"plz-out/gen/p/od1.txt", "plz-out/gen/p/od2.txt", "plz-out/gen/p/od3.txt"}},
		{"//p2:ff2", []string{"plz-out/gen/p2/f.txt"}},
		{"//p2:h2", []string{"plz-out/gen/p2/h2.out"}},
	}
}

func (c Dirs) Args(s Src) ([]string, []string) {
	n := c.Threads
	if n == "" {
		n = "1"
	}
	return []string{"build", "--plain_output", "-v", "warning", "-n", n, "//p:all", "//p2:all"}, nil
}

func (c Dirs) Sigs(s Src, clean *Obs) map[string]string {
	files := c.Files(s)
	defs := map[string]string{}
	for _, l := range strings.Split(files["p/BUILD"], "\n") {
		for _, n := range []string{"d", "e", "fg", "t", "g", "ff", "h", "k", "m", "od"} {
			if strings.Contains(l, "name=\""+n+"\"") {
				defs["//p:"+n] = l
			}
		}
	}
	return map[string]string{
		"//p:d":   defs["//p:d"] + "|" + files["p/d.txt"],
		"//p:e":   defs["//p:e"] + "|" + clean.Outs["//p:d"],
		"//p:g":   defs["//p:g"] + "|" + clean.Outs["//p:fg"] + "|" + clean.Outs["//p:t"],
		"//p:h":   defs["//p:h"] + "|" + clean.Outs["//p:ff"],
		"//p:k":   defs["//p:k"] + "|" + files["p/d.txt"],
		"//p:m":   defs["//p:m"] + "|" + files["p/d.txt"],
		"//p:od":  defs["//p:od"] + "|" + files["p/d.txt"],
		"//p2:h2": files["p2/BUILD"] + "|" + clean.Outs["//p2:ff2"],
	}
}

// SortedKeys helper.
func SortedKeys(m map[string]string) []string {
	ks := make([]string, 0, len(m))
	for k := range m {
		ks = append(ks, k)
	}
	sort.Strings(ks)
	return ks
}

// Package hist is engine E3: explicit-state breadth-first search over edit/invoke histories of small generated
// repositories, every transition executed by the REAL plz binary built from the working tree.
// A state is what is on disk (source tree, plz-out incl. xattrs, cache dir); successors are produced by restoring the
// predecessor's snapshot, applying one edit and running plz. States are deduplicated by a canonical hash.
package hist

import (
	"bytes"
	"crypto/sha256"
	"encoding/hex"
	"fmt"
	"io/fs"
	"os"
	"os/exec"
	"path/filepath"
	"sort"
	"strings"
	"sync"
	"sync/atomic"
	"syscall"
	"time"

	"golang.org/x/sys/unix"
)

// Src is the abstract source state of a family: a small record of fields.
type Src map[string]string

func (s Src) Clone() Src {
	c := Src{}
	for k, v := range s {
		c[k] = v
	}
	return c
}

func (s Src) Key() string {
	ks := make([]string, 0, len(s))
	for k := range s {
		ks = append(ks, k)
	}
	sort.Strings(ks)
	var sb strings.Builder
	for _, k := range ks {
		fmt.Fprintf(&sb, "%s=%s;", k, s[k])
	}
	return sb.String()
}

// An Edit is one letter of the alphabet.
type Edit struct {
	Name string
	Src  Src               // resulting source state
	Pre  func(repo string) // optional disk action before the build (e.g. rm -rf plz-out)
	Kind string            // edit type, for coverage accounting
}

// Target describes what a requested target must have produced.
type Target struct {
	Label string
	Outs  []string // paths relative to the repo root (plz-out/gen/p/x)
}

// Family is a scenario family.
type Family interface {
	Name() string
	Initial() Src
	Edits(s Src) []Edit
	// Files returns the source tree for s (path -> content; a path ending in / is an (empty) directory).
	Files(s Src) map[string]string
	Targets(s Src) []Target
	// Args returns the plz command line (after the binary) and the caller environment for s.
	Args(s Src) (args []string, env []string)
}

// Obs is what one plz invocation produced.
type Obs struct {
	Exit    int
	Output  string
	Outs    map[string]string // label -> digest of its outputs
	Actions []string          // labels whose command ran, in order
	Tree    map[string]string // path -> entry digest for the compared outputs
}

// Engine holds configuration shared by workers.
type Engine struct {
	Plz     string
	Root    string // scratch root (under /verif/.work)
	Workers int
	Fam     Family
	CacheOn bool // keep a cache dir in the state
	mu      sync.Mutex
	clean   map[string]*Obs // memoised clean builds by Src key
	cleanMu map[string]*sync.Mutex
	Trans   int64
	Clean   int64
	seq     int64
}

// State is a node of the search.
type State struct {
	ID    int
	Src   Src
	Snap  string // directory holding the snapshot (repo/ + cache/)
	Hist  []string
	Depth int
	Extra any // oracle bookkeeping (e.g. signature at last run)
}

func NewEngine(plz, root string, fam Family) *Engine {
	os.RemoveAll(root)
	os.MkdirAll(root, 0o755)
	return &Engine{Plz: plz, Root: root, Workers: 4, Fam: fam, clean: map[string]*Obs{}, cleanMu: map[string]*sync.Mutex{}}
}

const plzconfig = `[please]
selfupdate = false
[build]
path = /usr/local/bin:/usr/bin:/bin
timeout = 60
[display]
systemstats = false
`

// Materialise writes the source tree of s into repo, editing files in place (as `echo y > file` does),
// removing files that no longer belong and leaving plz-out alone.
func Materialise(f Family, s Src, repo string, extraConfig string) {
	want := f.Files(s)
	if _, ok := want[".plzconfig"]; !ok {
		want[".plzconfig"] = plzconfig + extraConfig
	}
	// remove stale source files
	filepath.WalkDir(repo, func(p string, d fs.DirEntry, err error) error {
		if err != nil {
			return nil
		}
		rel, _ := filepath.Rel(repo, p)
		if rel == "." {
			return nil
		}
		if rel == "plz-out" {
			return filepath.SkipDir
		}
		if d.IsDir() {
			keep := false
			for w := range want {
				if strings.HasPrefix(w, rel+"/") {
					keep = true
				}
			}
			if !keep {
				os.RemoveAll(p)
				return filepath.SkipDir
			}
			return nil
		}
		if _, ok := want[rel]; !ok {
			os.Remove(p)
		}
		return nil
	})
	for rel, content := range want {
		p := filepath.Join(repo, rel)
		if strings.HasSuffix(rel, "/") {
			os.MkdirAll(p, 0o755)
			continue
		}
		os.MkdirAll(filepath.Dir(p), 0o755)
		if strings.HasPrefix(content, "SYMLINK:") {
			tgt := strings.TrimPrefix(content, "SYMLINK:")
			if cur, err := os.Readlink(p); err == nil && cur == tgt {
				continue
			}
			os.Remove(p)
			os.Symlink(tgt, p)
			continue
		}
		if cur, err := os.ReadFile(p); err == nil && string(cur) == content {
			if fi, err := os.Lstat(p); err == nil && fi.Mode().IsRegular() {
				continue
			}
		}
		if fi, err := os.Lstat(p); err == nil && !fi.Mode().IsRegular() {
			os.RemoveAll(p)
		}
		mode := os.FileMode(0o644)
		if strings.HasPrefix(content, "#!") {
			mode = 0o755
		}
		fh, err := os.OpenFile(p, os.O_WRONLY|os.O_CREATE|os.O_TRUNC, mode)
		if err != nil {
			panic(err)
		}
		fh.WriteString(content)
		fh.Close()
		os.Chmod(p, mode)
	}
}

// runPlz runs plz in dir/repo and observes.
func (e *Engine) runPlz(dir string, s Src) *Obs { return e.RunWith(e.Plz, dir, s, nil) }

// RunWith runs the given plz binary (e.g. one built with the file-system seam) with extra environment in dir/repo.
func (e *Engine) RunWith(bin, dir string, s Src, extraEnv []string) *Obs {
	repo := filepath.Join(dir, "repo")
	logf := filepath.Join(dir, "actions.log")
	os.Remove(logf)
	args, env := e.Fam.Args(s)
	env = append(append([]string{}, env...), extraEnv...)
	cmd := exec.Command(bin, args...)
	cmd.Dir = repo
	cmd.Env = append([]string{"PATH=/usr/local/bin:/usr/bin:/bin", "HOME=" + dir, "LANG=C", "GOMAXPROCS=2", "GOGC=off"}, env...)
	var out bytes.Buffer
	cmd.Stdout, cmd.Stderr = &out, &out
	cmd.SysProcAttr = &syscall.SysProcAttr{Setpgid: true}
	done := make(chan error, 1)
	if err := cmd.Start(); err != nil {
		panic(err)
	}
	go func() { done <- cmd.Wait() }()
	o := &Obs{}
	select {
	case err := <-done:
		if err != nil {
			if ee, ok := err.(*exec.ExitError); ok {
				o.Exit = ee.ExitCode()
			} else {
				o.Exit = -2
			}
		}
	case <-time.After(120 * time.Second):
		syscall.Kill(-cmd.Process.Pid, syscall.SIGKILL)
		<-done
		o.Exit = -9 // horizon hit: reported as an outcome, never by itself as a violation
	}
	o.Output = out.String()
	if b, err := os.ReadFile(logf); err == nil {
		for _, l := range strings.Split(strings.TrimSpace(string(b)), "\n") {
			if l != "" {
				o.Actions = append(o.Actions, l)
			}
		}
	}
	o.Outs = map[string]string{}
	o.Tree = map[string]string{}
	for _, t := range e.Fam.Targets(s) {
		var sb strings.Builder
		for _, out := range t.Outs {
			d := TreeDigest(filepath.Join(repo, out), false)
			ks := make([]string, 0, len(d))
			for k := range d {
				ks = append(ks, k)
			}
			sort.Strings(ks)
			for _, k := range ks {
				fmt.Fprintf(&sb, "%s%s=%s\n", out, k, d[k])
				o.Tree[out+k] = d[k]
			}
		}
		o.Outs[t.Label] = sb.String()
	}
	return o
}

// TreeDigest describes the tree at p: relative path -> kind/mode/content digest. withX adds user.* xattrs.
func TreeDigest(p string, withX bool) map[string]string {
	d := map[string]string{}
	fi, err := os.Lstat(p)
	if err != nil {
		d[""] = "MISSING"
		return d
	}
	var walk func(abs, rel string, fi os.FileInfo)
	walk = func(abs, rel string, fi os.FileInfo) {
		x := ""
		if withX {
			x = xattrs(abs)
		}
		switch {
		case fi.Mode()&os.ModeSymlink != 0:
			t, _ := os.Readlink(abs)
			d[rel] = "l:" + t + x
		case fi.IsDir():
			d[rel] = "d" + x
			es, _ := os.ReadDir(abs)
			for _, e := range es {
				i, err := e.Info()
				if err == nil {
					walk(filepath.Join(abs, e.Name()), rel+"/"+e.Name(), i)
				}
			}
		default:
			b, _ := os.ReadFile(abs)
			h := sha256.Sum256(b)
			ex := "-"
			if fi.Mode()&0o111 != 0 {
				ex = "x"
			}
			d[rel] = fmt.Sprintf("f:%s:%d:%s%s", ex, len(b), hex.EncodeToString(h[:8]), x)
		}
	}
	walk(p, "", fi)
	return d
}

func xattrs(p string) string {
	buf := make([]byte, 4096)
	n, err := unix.Llistxattr(p, buf)
	if err != nil || n == 0 {
		return ""
	}
	var names []string
	for _, nm := range strings.Split(strings.TrimRight(string(buf[:n]), "\x00"), "\x00") {
		if strings.HasPrefix(nm, "user.") {
			names = append(names, nm)
		}
	}
	sort.Strings(names)
	var sb strings.Builder
	for _, nm := range names {
		v := make([]byte, 1024)
		m, err := unix.Lgetxattr(p, nm, v)
		if err == nil {
			fmt.Fprintf(&sb, "|%s=%x", nm, v[:m])
		}
	}
	return sb.String()
}

// StateKey is the canonical key of the on-disk state in dir: source state + plz-out (gen, bin, metadata, xattrs) + cache.
// plz-out/log, plz-out/tmp and lock files are excluded (DESIGN 2.3: they cannot influence a later build).
func StateKey(dir string, s Src) string {
	h := sha256.New()
	fmt.Fprintf(h, "src:%s\n", s.Key())
	for _, sub := range []string{"repo/plz-out/gen", "repo/plz-out/bin", "cache"} {
		d := TreeDigest(filepath.Join(dir, sub), true)
		ks := make([]string, 0, len(d))
		for k := range d {
			ks = append(ks, k)
		}
		sort.Strings(ks)
		for _, k := range ks {
			fmt.Fprintf(h, "%s%s=%s\n", sub, k, d[k])
		}
	}
	return hex.EncodeToString(h.Sum(nil)[:16])
}

// CopyTree copies a snapshot (cp -a: hard links, xattrs, times preserved).
func CopyTree(from, to string) { cpa(from, to) }

func cpa(from, to string) {
	os.RemoveAll(to)
	if out, err := exec.Command("cp", "-a", from, to).CombinedOutput(); err != nil {
		panic(fmt.Sprintf("cp -a %s %s: %v %s", from, to, err, out))
	}
}

// CleanObs returns (memoised) the observation of a clean build of s in a fresh directory, without cache;
// on first use the clean build is performed twice and must agree (generated commands are deterministic).
func (e *Engine) CleanObs(s Src, extraConfig string) *Obs {
	key := s.Key()
	e.mu.Lock()
	if o, ok := e.clean[key]; ok {
		e.mu.Unlock()
		return o
	}
	l, ok := e.cleanMu[key]
	if !ok {
		l = &sync.Mutex{}
		e.cleanMu[key] = l
	}
	e.mu.Unlock()
	l.Lock()
	defer l.Unlock()
	e.mu.Lock()
	if o, ok := e.clean[key]; ok {
		e.mu.Unlock()
		return o
	}
	e.mu.Unlock()
	// determinism of the generated commands is established on the first 8 distinct trees (built twice); later trees are built once
	var obs [2]*Obs
	reps := 1
	if atomic.LoadInt64(&e.Clean) < 16 {
		reps = 2
	}
	for i := 0; i < reps; i++ {
		dir := filepath.Join(e.Root, fmt.Sprintf("clean-%d", atomic.AddInt64(&e.seq, 1)))
		os.MkdirAll(filepath.Join(dir, "repo"), 0o755)
		Materialise(e.Fam, s, filepath.Join(dir, "repo"), extraConfig)
		obs[i] = e.runPlz(dir, s)
		os.RemoveAll(dir)
		atomic.AddInt64(&e.Clean, 1)
	}
	if reps == 2 && (obs[0].Exit != obs[1].Exit || fmt.Sprint(obs[0].Outs) != fmt.Sprint(obs[1].Outs)) {
		fmt.Fprintf(os.Stderr, "HARNESS-NONDETERMINISM: two clean builds of %s differ:\n%v\n%v\n%s\n%s\n", key, obs[0].Outs, obs[1].Outs, obs[0].Output, obs[1].Output)
		os.Exit(2)
	}
	e.mu.Lock()
	e.clean[key] = obs[0]
	e.mu.Unlock()
	return obs[0]
}

// Step restores the snapshot of from into a fresh directory, applies ed, runs plz and returns the directory and observation.
func (e *Engine) Step(from *State, ed Edit, extraConfig string) (string, *Obs) {
	dir := filepath.Join(e.Root, fmt.Sprintf("s-%d", atomic.AddInt64(&e.seq, 1)))
	if from != nil && from.Snap != "" {
		cpa(from.Snap, dir)
	} else {
		os.MkdirAll(filepath.Join(dir, "repo"), 0o755)
	}
	if e.CacheOn {
		os.MkdirAll(filepath.Join(dir, "cache"), 0o755)
	}
	repo := filepath.Join(dir, "repo")
	if ed.Pre != nil {
		ed.Pre(repo)
	}
	Materialise(e.Fam, ed.Src, repo, extraConfig)
	o := e.runPlz(dir, ed.Src)
	atomic.AddInt64(&e.Trans, 1)
	return dir, o
}

// DiffOuts describes how two observations' outputs differ ("" if equal).
func DiffOuts(inc, clean *Obs) string {
	var sb strings.Builder
	if inc.Exit != clean.Exit {
		fmt.Fprintf(&sb, "exit status %d vs clean %d\n", inc.Exit, clean.Exit)
	}
	ks := map[string]bool{}
	for k := range inc.Tree {
		ks[k] = true
	}
	for k := range clean.Tree {
		ks[k] = true
	}
	var keys []string
	for k := range ks {
		keys = append(keys, k)
	}
	sort.Strings(keys)
	for _, k := range keys {
		if inc.Tree[k] != clean.Tree[k] {
			fmt.Fprintf(&sb, "%s: incremental=%q clean=%q\n", k, inc.Tree[k], clean.Tree[k])
		}
	}
	return sb.String()
}

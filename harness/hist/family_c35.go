package hist

import (
	"fmt"
	"io/fs"
	"os"
	"path/filepath"
	"regexp"
	"strings"
	"sync"
	"sync/atomic"
)

// ---------------------------------------------------------------------------------------------
// HashFam (C35): one genrule //p:x with a declared `hashes` list. Shape = "file" (one output file), "two" (two output
// files) or "dir" (one output directory). The source state has the content of the single source file (c = x|y: the outputs
// are a function of it) and the VARIANT of the declared list (h). The declared values are always derived from the true
// hashes of the outputs for content x, so flipping the content to y makes every declared value wrong.
//
// The true hashes (one per configured algorithm) are not computed by the harness: they are read from plz's own mismatch
// message of a probe build that declares a bogus value ("... but was: sha1: .. sha256: .. blake3: ..").

type HashFam struct {
	Shape    string
	Cache    bool
	Variants []string // alphabet of h besides the initial "sha256"
	WithRm   bool
	WithNoop bool
	table    *hashTable
}

type hashTable struct {
	mu sync.Mutex
	m  map[string]map[string]string // content -> algo -> hex
}

func NewHashFam(shape string, cache bool, variants []string) *HashFam {
	return &HashFam{Shape: shape, Cache: cache, Variants: variants, WithRm: true, WithNoop: true, table: &hashTable{m: map[string]map[string]string{}}}
}

// AllHashVariants is the complete alphabet of declared lists.
var AllHashVariants = []string{"none", "sha1", "blake3", "pfx", "near", "short", "mixed-ok", "mixed-bad", "pfx-near", "near-sha1", "long"}

func (c *HashFam) Name() string { return "hashes-" + c.Shape }

func (c *HashFam) Initial() Src { return Src{"c": "x", "h": "sha256"} }

// PoisonedFiles counts the cache files replaced by poison edits.
var PoisonedFiles int64

var hashOutNames = map[string]bool{"x.out": true, "x1.out": true, "x2.out": true, "f": true, "g": true}

// PoisonCache replaces every cached output file of //p:x below repo/../cache by different bytes (a new inode: the
// outputs in plz-out may be hard links of the cache entries and must not change with them).
func PoisonCache(repo string) int { return poisonCache(repo, false) }

// PoisonCacheInPlace overwrites the cached artifacts WITHOUT replacing their inodes: whatever plz recorded on the file
// (its user.plz_hash* extended attributes) stays attached to the changed bytes.
func PoisonCacheInPlace(repo string) int { return poisonCache(repo, true) }

func poisonCache(repo string, inPlace bool) int {
	n := 0
	filepath.WalkDir(filepath.Join(repo, "..", "cache"), func(p string, d fs.DirEntry, err error) error {
		if err != nil || d.IsDir() || !hashOutNames[d.Name()] {
			return nil
		}
		fi, err := d.Info()
		if err != nil || !fi.Mode().IsRegular() {
			return nil
		}
		dirfi, _ := os.Stat(filepath.Dir(p))
		os.Chmod(filepath.Dir(p), 0o755)
		if inPlace {
			os.Chmod(p, 0o644)
		} else {
			os.Remove(p)
		}
		if os.WriteFile(p, []byte("poison\n"), 0o644) == nil { // (WriteFile truncates an existing file in place)
			os.Chmod(p, fi.Mode().Perm())
			n++
		}
		if dirfi != nil {
			os.Chmod(filepath.Dir(p), dirfi.Mode().Perm())
		}
		return nil
	})
	return n
}

func (c *HashFam) Edits(s Src) []Edit {
	if s["h"] == "probe" {
		return nil
	}
	var es []Edit
	for _, v := range append([]string{"sha256"}, c.Variants...) {
		if s["h"] == v {
			continue
		}
		n := s.Clone()
		n["h"] = v
		es = append(es, Edit{Name: "hashes=" + v, Src: n, Kind: "declared-hashes"})
	}
	n := s.Clone()
	if s["c"] == "x" {
		n["c"] = "y"
	} else {
		n["c"] = "x"
	}
	es = append(es, Edit{Name: "content=" + n["c"], Src: n, Kind: "content"})
	if c.WithNoop {
		es = append(es, Noop(s))
	}
	if c.WithRm {
		es = append(es, RmPlzOut(s))
	}
	if c.Cache {
		es = append(es, Edit{Name: "poison-cache+rm-plz-out", Src: s.Clone(), Kind: "poison-cache+rm-plz-out", Pre: func(repo string) {
			atomic.AddInt64(&PoisonedFiles, int64(PoisonCache(repo)))
			os.RemoveAll(filepath.Join(repo, "plz-out"))
		}})
		es = append(es, Edit{Name: "tamper-cache-in-place+rm-plz-out", Src: s.Clone(), Kind: "tamper-cache-in-place+rm-plz-out", Pre: func(repo string) {
			atomic.AddInt64(&PoisonedFiles, int64(PoisonCacheInPlace(repo)))
			os.RemoveAll(filepath.Join(repo, "plz-out"))
		}})
	}
	return es
}

// SetTrue records the true hashes of the outputs for a content (from a probe build).
func (c *HashFam) SetTrue(content string, m map[string]string) {
	c.table.mu.Lock()
	defer c.table.mu.Unlock()
	c.table.m[content] = m
}

// True returns the true hashes of the outputs for a content.
func (c *HashFam) True(content string) map[string]string {
	c.table.mu.Lock()
	defer c.table.mu.Unlock()
	return c.table.m[content]
}

func flipLastHex(h string) string {
	if h == "" {
		return h
	}
	last := h[len(h)-1]
	r := byte('0')
	if last == '0' {
		r = '1'
	}
	return h[:len(h)-1] + string(r)
}

// Declared is the declared list for variant h (nil = no hashes attribute). It always refers to content x.
func (c *HashFam) Declared(h string) []string {
	t := c.True("x")
	near := flipLastHex(t["sha256"])
	short := ""
	if len(t["sha256"]) > 2 {
		short = t["sha256"][:len(t["sha256"])-2]
	}
	switch h {
	case "none":
		return nil
	case "probe":
		return []string{"0000"}
	case "sha1", "sha256", "blake3":
		return []string{t[h]}
	case "pfx":
		return []string{"sha256: " + t["sha256"]}
	case "near":
		return []string{near}
	case "near-sha1":
		return []string{flipLastHex(t["sha1"])}
	case "short":
		return []string{short}
	case "long":
		return []string{t["sha256"] + "00"}
	case "mixed-ok":
		return []string{near, t["sha1"]}
	case "mixed-bad":
		return []string{near, short}
	case "pfx-near":
		return []string{"sha256: " + near}
	}
	panic("unknown variant " + h)
}

// ExpectOK is the boring reference: the build must succeed iff there is no declared list or one declared value (prefix
// aside) equals the true hash of the current outputs under one of the configured algorithms.
func (c *HashFam) ExpectOK(s Src) bool {
	d := c.Declared(s["h"])
	if d == nil {
		return true
	}
	t := c.True(s["c"])
	for _, v := range d {
		if i := strings.LastIndexByte(v, ':'); i >= 0 {
			v = strings.TrimSpace(v[i+1:])
		}
		for _, tv := range t {
			if v == tv {
				return true
			}
		}
	}
	return false
}

func (c *HashFam) Files(s Src) map[string]string {
	hashes := ""
	if d := c.Declared(s["h"]); d != nil {
		var q []string
		for _, v := range d {
			q = append(q, fmt.Sprintf("%q", v))
		}
		hashes = ", hashes=[" + strings.Join(q, ", ") + "]"
	}
	var outs, cmd string
	switch c.Shape {
	case "file":
		outs, cmd = "\"x.out\"", catCmd
	case "two":
		outs = "\"x1.out\", \"x2.out\""
		cmd = "for s in $SRCS; do while read -r l; do echo \"$l\"; done < $s; done > x1.out; echo two > x2.out"
	case "dir":
		outs = "\"xd\""
		cmd = "mkdir $OUT; for s in $SRCS; do while read -r l; do echo \"$l\"; done < $s; done > $OUT/f; echo two > $OUT/g"
	default:
		panic("unknown shape " + c.Shape)
	}
	build := fmt.Sprintf("genrule(name=\"x\", srcs=[\"x.txt\"], outs=[%s]%s, cmd=%q)\n", outs, hashes, fmt.Sprintf(logPfx, "//p:x")+cmd)
	return map[string]string{"p/BUILD": build, "p/x.txt": s["c"] + "\n"}
}

func (c *HashFam) Targets(s Src) []Target {
	switch c.Shape {
	case "two":
		return []Target{{"//p:x", []string{"plz-out/gen/p/x1.out", "plz-out/gen/p/x2.out"}}}
	case "dir":
		return []Target{{"//p:x", []string{"plz-out/gen/p/xd"}}}
	}
	return []Target{{"//p:x", []string{"plz-out/gen/p/x.out"}}}
}

func (c *HashFam) Args(s Src) ([]string, []string) {
	return []string{"build", "--plain_output", "-v", "warning", "-n", "1", "//p:x"}, nil
}

var butWasRe = regexp.MustCompile(`(?m)^\s*([a-z0-9]+): ([0-9a-f]+)\s*$`)

// ParseButWas extracts algo -> hex from plz's "Bad output hash ... but was:" message.
func ParseButWas(output string) map[string]string {
	i := strings.Index(output, "Bad output hash")
	if i < 0 {
		return nil
	}
	m := map[string]string{}
	for _, g := range butWasRe.FindAllStringSubmatch(output[i:], -1) {
		if _, dup := m[g[1]]; !dup {
			m[g[1]] = g[2]
		}
	}
	return m
}

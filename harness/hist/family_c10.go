package hist

import (
	"fmt"
	"os"
	"path/filepath"
	"regexp"
	"sort"
	"strings"
	"sync"
	"sync/atomic"
)

// ---------------------------------------------------------------------------------------------
// EnvFam (C10): two genrules that dump their complete environment with shell builtins only
// (//p:n without pass_env, //p:f with pass_env=[FOO]); the configuration optionally lists BAR in
// [build] passunsafeenv and QUX in [build] passenv. The "source state" is the CALLER's environment:
// every edit sets / changes / unsets one variable of the shell that invokes plz.
//
// pass_unsafe_env is not an argument of build_rule/genrule on this tree (BuildTarget.PassUnsafeEnv is
// never set by the parser), so the unsafe variant is reached through the configuration.

// envDumpCmd prints every exported variable as NAME=VALUE, sorted by name, using builtins only.
const envDumpCmd = "for v in $(compgen -e); do echo \"$v=${!v}\"; done > $OUT"

// EnvVars are the caller variables of the alphabet. PATH is special: "-" means the engine's default PATH.
var EnvVars = []string{"FOO", "BAR", "BAZ", "QUX", "PATH"}

const envAltPath = "/usr/local/bin:/usr/bin:/bin:/nonexistent-verif"

type EnvFam struct {
	Cfg      string   // "none" | "unsafe" (passunsafeenv=BAR) | "both" (passunsafeenv=BAR, passenv=QUX)
	Vals     []string // values besides the initial "1": subset of {"2", "-", "e"} ("-" = unset, "e" = set to the empty string)
	WithPath bool
	Boundary bool // add //p:g with pass_env=[FOO, GOO] and one compound edit that moves the FOO/GOO value boundary (C08's separator-less hash, end to end)
	WithRm   bool
	WithNoop bool
	Sandbox  bool // add //p:s with sandbox=True, run through an external sandbox tool (FakeSandboxTool: runs its arguments with the environment it got)
}

// FakeSandboxTool is the absolute path of a stand-in for please_sandbox (set and created by the harness).
var FakeSandboxTool string

func (c EnvFam) Name() string {
	if c.Boundary {
		return "env-" + c.Cfg + "-boundary"
	}
	return "env-" + c.Cfg
}

func (c EnvFam) Initial() Src {
	s := Src{"FOO": "1", "BAR": "1", "BAZ": "1", "QUX": "1", "PATH": "-", "marker": "1"}
	if c.Boundary {
		s["FOO"], s["GOO"] = "a", "bGOO=c"
	}
	return s
}

func (c EnvFam) Edits(s Src) []Edit {
	if s["only"] != "" {
		return nil
	}
	var es []Edit
	for _, v := range []string{"FOO", "BAR", "BAZ", "QUX"} {
		for _, val := range append([]string{"1"}, c.Vals...) {
			if s[v] == val {
				continue
			}
			n := s.Clone()
			n[v] = val
			es = append(es, Edit{Name: v + "=" + val, Src: n, Kind: "caller-env:" + v})
		}
	}
	if c.Boundary {
		// both variables change in one step; the concatenation FOO=<v>GOO=<w> that ruleHash writes stays the same
		n := s.Clone()
		if s["FOO"] == "a" && s["GOO"] == "bGOO=c" {
			n["FOO"], n["GOO"] = "aGOO=b", "c"
			es = append(es, Edit{Name: "FOO,GOO=shift-boundary", Src: n, Kind: "caller-env:FOO+GOO:boundary-shift"})
		} else if s["FOO"] == "aGOO=b" && s["GOO"] == "c" {
			n["FOO"], n["GOO"] = "a", "bGOO=c"
			es = append(es, Edit{Name: "FOO,GOO=shift-boundary-back", Src: n, Kind: "caller-env:FOO+GOO:boundary-shift"})
		}
	}
	if c.WithPath {
		n := s.Clone()
		if s["PATH"] == "-" {
			n["PATH"] = "alt"
		} else {
			n["PATH"] = "-"
		}
		es = append(es, Edit{Name: "PATH=" + n["PATH"], Src: n, Kind: "caller-env:PATH"})
	}
	if c.WithNoop {
		es = append(es, Noop(s))
	}
	if c.WithRm {
		es = append(es, RmPlzOut(s))
	}
	return es
}

// ExtraConfig is the configuration text that belongs to the variant.
func (c EnvFam) ExtraConfig() string {
	sb := ""
	if c.Sandbox {
		sb = "[sandbox]\ntool = " + FakeSandboxTool + "\n"
	}
	switch c.Cfg {
	case "unsafe":
		return "[build]\npassunsafeenv = BAR\n" + sb
	case "both":
		return "[build]\npassunsafeenv = BAR\npassenv = QUX\n" + sb
	case "path":
		return "[build]\npassenv = PATH\n" + sb // the caller's PATH is passed through - and must then be hashed like any passenv variable
	}
	return sb
}

func (c EnvFam) Files(s Src) map[string]string {
	var b strings.Builder
	fmt.Fprintf(&b, "genrule(name=\"n\", outs=[\"n.out\"], cmd=%q)\n", fmt.Sprintf(logPfx, "//p:n")+envDumpCmd)
	fmt.Fprintf(&b, "genrule(name=\"f\", outs=[\"f.out\"], pass_env=[\"FOO\"], cmd=%q)\n", fmt.Sprintf(logPfx, "//p:f")+envDumpCmd)
	if c.Boundary {
		fmt.Fprintf(&b, "genrule(name=\"g\", outs=[\"g.out\"], pass_env=[\"FOO\", \"GOO\"], cmd=%q)\n", fmt.Sprintf(logPfx, "//p:g")+envDumpCmd)
	}
	if c.Sandbox {
		fmt.Fprintf(&b, "genrule(name=\"s\", outs=[\"s.out\"], sandbox=True, cmd=%q)\n", fmt.Sprintf(logPfx, "//p:s")+strings.Replace(envDumpCmd, "$OUT", "s.out", 1)) // ($OUT names the sandbox mount point, which the stand-in tool does not create; the working directory is the real one)
	}
	return map[string]string{"p/BUILD": b.String()}
}

func (c EnvFam) Targets(s Src) []Target {
	ts := []Target{{"//p:n", []string{"plz-out/gen/p/n.out"}}, {"//p:f", []string{"plz-out/gen/p/f.out"}}}
	if c.Boundary {
		ts = append(ts, Target{"//p:g", []string{"plz-out/gen/p/g.out"}})
	}
	if c.Sandbox {
		ts = append(ts, Target{"//p:s", []string{"plz-out/gen/p/s.out"}})
	}
	if o := s["only"]; o != "" {
		for _, t := range ts {
			if t.Label == o {
				return []Target{t}
			}
		}
	}
	return ts
}

// CallerEnv is the environment the family adds to the engine's fixed one for s.
func (c EnvFam) CallerEnv(s Src) []string {
	var env []string
	if s["marker"] == "1" {
		env = append(env, "VERIF_MARKER=1")
	}
	for _, v := range []string{"FOO", "BAR", "BAZ", "QUX", "GOO"} {
		switch s[v] {
		case "-", "":
		case "e":
			env = append(env, v+"=")
		default:
			env = append(env, v+"="+s[v])
		}
	}
	if s["PATH"] == "alt" {
		env = append(env, "PATH="+envAltPath)
	}
	return env
}

func (c EnvFam) Args(s Src) ([]string, []string) {
	tgt := "//p:all"
	if o := s["only"]; o != "" {
		tgt = o
	}
	return []string{"build", "--plain_output", "-v", "warning", "-n", "1", tgt}, c.CallerEnv(s)
}

// Hashed returns the caller variables whose values the documentation says are part of label's hash
// (target pass_env, [build] passenv); Unsafe those that are passed but not hashed ([build] passunsafeenv).
func (c EnvFam) Hashed(label string) []string {
	var vs []string
	if label == "//p:f" {
		vs = append(vs, "FOO")
	}
	if label == "//p:g" {
		vs = append(vs, "FOO", "GOO")
	}
	if c.Cfg == "both" {
		vs = append(vs, "QUX")
	}
	if c.Cfg == "path" {
		vs = append(vs, "PATH")
	}
	return vs
}

func (c EnvFam) Unsafe(label string) []string {
	if c.Cfg == "unsafe" || c.Cfg == "both" {
		return []string{"BAR"}
	}
	return nil
}

// HashedSig is the value of everything hashed that label's command can see from the caller under s.
// Target-level pass_env reads os.Getenv (unset and empty are the same value: the command sees FOO= in both cases);
// config-level passenv uses LookupEnv (an unset variable is not passed at all).
func (c EnvFam) HashedSig(label string, s Src) string {
	var sb strings.Builder
	for _, v := range c.Hashed(label) {
		val := s[v]
		if (v == "FOO" || v == "GOO") && (val == "-" || val == "e") {
			val = ""
		}
		fmt.Fprintf(&sb, "%s=%s;", v, val)
	}
	return sb.String()
}

// RefSrc is the caller state under which a fresh build of label yields, by definition, the environment label is
// entitled to: only the variables passed to it are set (hashed ones at their current value, unsafe ones at the given
// value), nothing else (no BAZ, no marker, default PATH).
func (c EnvFam) RefSrc(label string, s Src, unsafeVals map[string]string) Src {
	r := Src{"FOO": "-", "BAR": "-", "BAZ": "-", "QUX": "-", "PATH": "-", "marker": "0", "only": label}
	if c.Boundary {
		r["GOO"] = "-"
	}
	for _, v := range c.Hashed(label) {
		r[v] = s[v]
	}
	for _, v := range c.Unsafe(label) {
		r[v] = unsafeVals[v]
	}
	return r
}

// ---------------------------------------------------------------------------------------------
// Small engine extension (kept here because hist.go is shared): run a fresh build of s in a new directory and let the
// caller read whatever it needs before the directory is removed.

// RunFresh materialises s into a fresh directory, runs plz there and calls read with the directory and observation.
func (e *Engine) RunFresh(s Src, extraConfig string, read func(dir string, o *Obs)) {
	dir := filepath.Join(e.Root, fmt.Sprintf("fresh-%d", atomic.AddInt64(&e.seq, 1)))
	os.MkdirAll(filepath.Join(dir, "repo"), 0o755)
	if e.CacheOn {
		os.MkdirAll(filepath.Join(dir, "cache"), 0o755)
	}
	Materialise(e.Fam, s, filepath.Join(dir, "repo"), extraConfig)
	o := e.runPlz(dir, s)
	atomic.AddInt64(&e.Clean, 1)
	read(dir, o)
	os.RemoveAll(dir)
}

// PrivatePlz copies the plz binary into dir (created) and returns the copy: the shared binary under .work/bin is rebuilt by
// every concurrently running check (possibly from a mutant tree), so a search must not read it more than once.
func PrivatePlz(plz, dir string) string {
	b, err := os.ReadFile(plz)
	if err != nil {
		panic(err)
	}
	os.MkdirAll(dir, 0o755)
	p := filepath.Join(dir, "plz")
	os.Remove(p)
	if err := os.WriteFile(p, b, 0o755); err != nil {
		panic(err)
	}
	return p
}

// ReadNormalised reads a file below dir and replaces every scratch directory of the engine (dir itself and its
// siblings s-N, snap-N, fresh-N, clean-N: an output that was not re-executed names the directory it was built in) by "@".
func ReadNormalised(dir, rel string) string {
	b, err := os.ReadFile(filepath.Join(dir, rel))
	if err != nil {
		return "MISSING\n"
	}
	re := regexp.MustCompile(regexp.QuoteMeta(filepath.Dir(dir)) + `/[a-z]+-[0-9]+`)
	return re.ReplaceAllString(string(b), "@")
}

// Memo is a concurrent memo table with per-key single flight.
type Memo struct {
	mu   sync.Mutex
	vals map[string]string
	lks  map[string]*sync.Mutex
	N    int64
}

func NewMemo() *Memo { return &Memo{vals: map[string]string{}, lks: map[string]*sync.Mutex{}} }

func (m *Memo) Get(key string, compute func() string) string {
	m.mu.Lock()
	if v, ok := m.vals[key]; ok {
		m.mu.Unlock()
		return v
	}
	l, ok := m.lks[key]
	if !ok {
		l = &sync.Mutex{}
		m.lks[key] = l
	}
	m.mu.Unlock()
	l.Lock()
	defer l.Unlock()
	m.mu.Lock()
	if v, ok := m.vals[key]; ok {
		m.mu.Unlock()
		return v
	}
	m.mu.Unlock()
	v := compute()
	m.mu.Lock()
	m.vals[key] = v
	m.N++
	m.mu.Unlock()
	return v
}

// Count returns the number of memoised values.
func (m *Memo) Count() int {
	m.mu.Lock()
	defer m.mu.Unlock()
	return int(m.N)
}

// Reruns counts the confirmation re-executions performed by Confirmed.
var Reruns int64

// A Finding is one oracle complaint about a transition.
type Finding struct {
	Class  string
	Detail string
}

// Judge is a Visit that returns its complaints instead of reporting them.
type Judge func(from *State, ed Edit, obs *Obs, dir string) (extra any, keyExtra string, fs []Finding)

// Confirmed turns a Judge into a Visit: a transition with a complaint of a class not yet reported is executed a second
// time from the same predecessor snapshot and judged again; the complaint is reported only if it reproduces, otherwise
// nondet is called (harness non-determinism is never a verdict).
func (e *Engine) Confirmed(judge Judge, extraConfig string, seen func(class string) bool, report func(f Finding, history []string), nondet func(msg string)) Visit {
	return func(from *State, ed Edit, obs *Obs, dir string) (any, string) {
		extra, kx, fs := judge(from, ed, obs, dir)
		var history []string
		if from != nil {
			history = append(append(history, from.Hist...), ed.Name)
		} else {
			history = []string{"init"}
		}
		var fresh []Finding
		for _, f := range fs {
			if !seen(f.Class) {
				fresh = append(fresh, f)
			}
		}
		if len(fresh) > 0 {
			dir2, obs2 := e.Step(from, ed, extraConfig)
			atomic.AddInt64(&Reruns, 1)
			_, _, fs2 := judge(from, ed, obs2, dir2)
			os.RemoveAll(dir2)
			again := map[string]bool{}
			for _, f := range fs2 {
				again[f.Class] = true
			}
			for _, f := range fresh {
				if !again[f.Class] {
					nondet(fmt.Sprintf("violation %s on history %v did not reproduce when the transition was executed a second time\n%s\nfirst output:\n%s\nsecond output:\n%s", f.Class, history, f.Detail, obs.Output, obs2.Output))
				}
			}
		}
		for _, f := range fs {
			report(f, history)
		}
		return extra, kx
	}
}

// EnvLines parses NAME=VALUE lines into a map (later lines of the same name are appended with \n: a value with a newline).
func EnvLines(content string) map[string]string {
	m := map[string]string{}
	last := ""
	for _, l := range strings.Split(strings.TrimRight(content, "\n"), "\n") {
		i := strings.IndexByte(l, '=')
		if i <= 0 {
			if last != "" {
				m[last] += "\n" + l
			}
			continue
		}
		last = l[:i]
		m[last] = l[i+1:]
	}
	return m
}

// SortedNames returns the sorted keys of a set.
func SortedNames(m map[string]bool) []string {
	ks := make([]string, 0, len(m))
	for k := range m {
		ks = append(ks, k)
	}
	sort.Strings(ks)
	return ks
}

package hist

import "fmt"

// ---------------------------------------------------------------------------------------------
// SharedFG: two filegroups of one package export the same generated files of a rule in another package, so two
// different targets legitimately write the same files under plz-out (the per-target lock files of //p:a and //p:b are
// different files). Only says which of the two an invocation is asked to build ("" = both).

type SharedFG struct {
	Only string
}

func (c SharedFG) Name() string { return "sharedfg" }
func (c SharedFG) Initial() Src { return Src{"v": "1"} }
func (c SharedFG) Edits(s Src) []Edit {
	if s["v"] == "1" {
		return []Edit{{Name: "v=2", Src: Src{"v": "2"}, Kind: "content-of-the-shared-generated-file"}}
	}
	return []Edit{{Name: "v=1", Src: Src{"v": "1"}, Kind: "content-of-the-shared-generated-file"}}
}

func (c SharedFG) Files(s Src) map[string]string {
	gen := fmt.Sprintf("genrule(name=\"g\", outs=[\"g1.txt\", \"g2.txt\"], cmd=%q, visibility=[\"PUBLIC\"])\n",
		fmt.Sprintf(logPfx, "//gen:g")+"echo one "+s["v"]+" > g1.txt; echo two > g2.txt")
	p := "filegroup(name=\"a\", srcs=[\"//gen:g\"])\nfilegroup(name=\"b\", srcs=[\"//gen:g\"])\n"
	return map[string]string{"gen/BUILD": gen, "p/BUILD": p}
}

func (c SharedFG) Targets(s Src) []Target {
	ts := []Target{{"//gen:g", []string{"plz-out/gen/gen/g1.txt", "plz-out/gen/gen/g2.txt"}}}
	for _, n := range []string{"a", "b"} {
		if c.Only == "" || c.Only == n {
			ts = append(ts, Target{"//p:" + n, []string{"plz-out/gen/p/g1.txt", "plz-out/gen/p/g2.txt"}})
		}
	}
	return ts
}

func (c SharedFG) Args(s Src) ([]string, []string) {
	args := []string{"build", "--plain_output", "-v", "warning", "-n", "2"}
	if c.Only != "" {
		return append(args, "//p:"+c.Only), nil
	}
	return append(args, "//p:a", "//p:b"), nil
}

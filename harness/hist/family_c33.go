package hist

import (
	"fmt"
	"strings"
)

// ---------------------------------------------------------------------------------------------
// VisFam (C33, history tier): //p:t depends on //q:d. The source state is d's visibility list and test_only flag and
// whether t is a test; d's command and outputs never change, so after an edit of d's visibility or test_only nothing
// about t's own inputs differs - yet whether the edge //p:t -> //q:d is legal does. Every transition is `plz build //p:t`.

type VisFam struct {
	WithNoop bool
	WithRm   bool
}

var visFields = []field{
	{"vis", []string{"PUBLIC", "//p:all", "//r:all", "//p/...", ""}, "visibility-of-dependency"},
	{"tonly", []string{"False", "True"}, "test_only-of-dependency"},
	{"ttest", []string{"False", "True"}, "depender-is-a-test"},
}

func (c VisFam) Name() string { return "visibility" }
func (c VisFam) Initial() Src { return initialOf(visFields) }
func (c VisFam) Edits(s Src) []Edit {
	es := editsOver(visFields, s, nil)
	if c.WithNoop {
		es = append(es, Noop(s))
	}
	if c.WithRm {
		es = append(es, RmPlzOut(s))
	}
	return es
}

func (c VisFam) Files(s Src) map[string]string {
	vis := "[]"
	if s["vis"] != "" {
		vis = fmt.Sprintf("[%q]", s["vis"])
	}
	q := fmt.Sprintf("genrule(name=\"d\", outs=[\"d.out\"], cmd=%q, visibility=%s, test_only=%s)\n", fmt.Sprintf(logPfx, "//q:d")+"echo d > $OUT", vis, s["tonly"])
	var p strings.Builder
	if s["ttest"] == "True" {
		fmt.Fprintf(&p, "gentest(name=\"t\", outs=[\"t.out\"], deps=[\"//q:d\"], no_test_output=True, cmd=%q, test_cmd=\"true\")\n", fmt.Sprintf(logPfx, "//p:t")+"echo t > $OUT")
	} else {
		fmt.Fprintf(&p, "genrule(name=\"t\", outs=[\"t.out\"], deps=[\"//q:d\"], cmd=%q)\n", fmt.Sprintf(logPfx, "//p:t")+"echo t > $OUT")
	}
	return map[string]string{"q/BUILD": q, "p/BUILD": p.String()}
}

func (c VisFam) Targets(s Src) []Target {
	out := "plz-out/gen/p/t.out"
	if s["ttest"] == "True" {
		out = "plz-out/bin/p/t.out"
	}
	return []Target{{"//p:t", []string{out}}}
}

func (c VisFam) Args(s Src) ([]string, []string) {
	return []string{"build", "--plain_output", "-v", "warning", "-n", "1", "//p:t"}, nil
}

// Legal is the boring reference: may //p:t depend on //q:d in state s?
func (c VisFam) Legal(s Src) (bool, string) {
	visible := false
	switch s["vis"] {
	case "PUBLIC", "//p:all", "//p/...":
		visible = true
	}
	if !visible {
		return false, "//q:d is not visible to //p:t (visibility " + s["vis"] + ")"
	}
	if s["tonly"] == "True" && s["ttest"] != "True" {
		return false, "//q:d is test_only and //p:t is neither a test nor test_only"
	}
	return true, ""
}

package hist

import (
	"fmt"
	"os"
	"path/filepath"
	"sync"
)

// Visit is called once per executed transition (concurrently); it returns the oracle bookkeeping for the new state
// and an extra string that is appended to the state key (so oracle-relevant memory is never merged away).
type Visit func(from *State, ed Edit, obs *Obs, dir string) (extra any, keyExtra string)

// Stats of a search.
type Stats struct {
	States       int
	Transitions  int
	DepthDone    int
	Complete     bool
	EditKindsHit map[string]int // edit kinds whose transition changed the state key
	Samples      [][]string
}

// BFS explores all edit histories up to depth.
func (e *Engine) BFS(depth int, extraConfig string, visit Visit, stop func() bool) Stats {
	st := Stats{Complete: true, EditKindsHit: map[string]int{}}
	seen := map[string]bool{}
	var mu sync.Mutex
	init0 := e.Fam.Initial()
	// depth 0: the first build of the initial tree
	dir, obs := e.Step(nil, Edit{Name: "init", Src: init0, Kind: "init"}, extraConfig)
	root := &State{ID: 0, Src: init0, Hist: []string{"init"}}
	root.Extra, _ = visit(nil, Edit{Name: "init", Src: init0, Kind: "init"}, obs, dir)
	root.Snap = filepath.Join(e.Root, "snap-0")
	os.Rename(dir, root.Snap)
	seen[StateKey(root.Snap, init0)] = true
	st.States, st.Transitions = 1, 1
	frontier := []*State{root}
	nextID := 1
	for d := 1; d <= depth && len(frontier) > 0; d++ {
		type job struct {
			from *State
			ed   Edit
		}
		var jobs []job
		for _, s := range frontier {
			for _, ed := range e.Fam.Edits(s.Src) {
				jobs = append(jobs, job{s, ed})
			}
		}
		var next []*State
		ch := make(chan job)
		var wg sync.WaitGroup
		aborted := false
		for w := 0; w < e.Workers; w++ {
			wg.Add(1)
			go func() {
				defer wg.Done()
				for j := range ch {
					dir, obs := e.Step(j.from, j.ed, extraConfig)
					extra, kx := visit(j.from, j.ed, obs, dir)
					key := StateKey(dir, j.ed.Src) + kx
					mu.Lock()
					st.Transitions++
					if !seen[key] {
						seen[key] = true
						ns := &State{ID: nextID, Src: j.ed.Src, Depth: d, Extra: extra, Hist: append(append([]string{}, j.from.Hist...), j.ed.Name)}
						nextID++
						ns.Snap = filepath.Join(e.Root, fmt.Sprintf("snap-%d", ns.ID))
						os.Rename(dir, ns.Snap)
						next = append(next, ns)
						st.States++
						st.EditKindsHit[j.ed.Kind]++
						if len(st.Samples) < 3 || ns.ID%997 == 0 {
							if len(st.Samples) < 6 {
								st.Samples = append(st.Samples, ns.Hist)
							}
						}
						mu.Unlock()
					} else {
						mu.Unlock()
						os.RemoveAll(dir)
					}
				}
			}()
		}
		for _, j := range jobs {
			if stop != nil && stop() {
				aborted = true
				break
			}
			ch <- j
		}
		close(ch)
		wg.Wait()
		if aborted {
			st.Complete = false
			break
		}
		st.DepthDone = d
		// the previous level's snapshots are no longer needed
		for _, s := range frontier {
			os.RemoveAll(s.Snap)
		}
		frontier = next
	}
	return st
}

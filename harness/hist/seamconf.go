package hist

import (
	"bufio"
	"fmt"
	"os"
	"path/filepath"
	"regexp"
	"sort"
	"strings"
)

// Seam conformance: the file-system seam (verifshim/vos) claims to see every mutating file-system operation of plz. That
// claim is checked against the kernel's view: the seamed binary runs once under strace, and every successful mutating
// system call made by the plz process itself (not by the commands it spawns) on a path below the scenario directory must
// be explained by an operation in the seam's own trace of that run.

// StraceWrapper writes a shell wrapper that runs bin under strace (output to $SEAM_STRACE_OUT) and returns its path.
func StraceWrapper(dir, bin string) string {
	calls := "execve,clone,clone3,fork,vfork,chdir,mkdir,mkdirat,rmdir,unlink,unlinkat,rename,renameat,renameat2,link,linkat," +
		"symlink,symlinkat,open,openat,openat2,creat,chmod,fchmod,fchmodat,chown,fchown,lchown,fchownat,truncate,ftruncate," +
		"utimensat,utime,utimes,futimesat,setxattr,lsetxattr,fsetxattr,removexattr,lremovexattr,fremovexattr"
	p := filepath.Join(dir, "plz-strace")
	os.WriteFile(p, []byte(fmt.Sprintf("#!/bin/sh\nexec strace -f -y -qq -s 4096 -e signal=none -o \"$SEAM_STRACE_OUT\" -e trace=%s %s \"$@\"\n", calls, bin)), 0o755)
	return p
}

// SysEvent is one successful mutating system call of the plz process.
type SysEvent struct {
	Kind  string // mkdir rm rename link symlink openw chmod chown truncate utimes setxattr rmxattr
	Path  string // absolute; for rename/link/symlink the destination
	Path2 string // rename/link: the source
	ByFD  bool   // the call named an open descriptor, not a path
	Line  string
}

var (
	straceLine = regexp.MustCompile(`^(\d+)\s+(.*)$`)
	resumedRe  = regexp.MustCompile(`^<\.\.\. (\w+) resumed>(.*)$`)
	fdPathRe   = regexp.MustCompile(`^(?:AT_FDCWD|\d+)<(.*)>$`)
)

// splitArgs splits the argument list of one strace call at top-level commas.
func splitArgs(s string) []string {
	var out []string
	depth, inStr, start := 0, false, 0
	for i := 0; i < len(s); i++ {
		c := s[i]
		switch {
		case inStr:
			if c == '\\' {
				i++
			} else if c == '"' {
				inStr = false
			}
		case c == '"':
			inStr = true
		case c == '(' || c == '[' || c == '{' || c == '<':
			depth++
		case c == ')' || c == ']' || c == '}' || c == '>':
			depth--
		case c == ',' && depth == 0:
			out = append(out, strings.TrimSpace(s[start:i]))
			start = i + 1
		}
	}
	if t := strings.TrimSpace(s[start:]); t != "" {
		out = append(out, t)
	}
	return out
}

func unquote(a string) (string, bool) {
	if len(a) >= 2 && a[0] == '"' {
		end := strings.LastIndex(a, `"`)
		s := a[1:end]
		s = strings.ReplaceAll(s, `\"`, `"`)
		s = strings.ReplaceAll(s, `\\`, `\`)
		return s, true
	}
	return "", false
}

func fdPath(a string) string {
	if m := fdPathRe.FindStringSubmatch(a); m != nil {
		return strings.TrimSuffix(m[1], " (deleted)")
	}
	return ""
}

// ParseStrace returns the mutating events of the root process (threads included, spawned processes excluded), with
// absolute paths. cwd resolves relative paths of calls without a directory descriptor.
func ParseStrace(file, cwd string) ([]SysEvent, error) {
	f, err := os.Open(file)
	if err != nil {
		return nil, err
	}
	defer f.Close()
	plz := map[string]bool{} // thread ids of the plz process
	pending := map[string]string{}
	var evs []SysEvent
	first := true
	sc := bufio.NewScanner(f)
	sc.Buffer(make([]byte, 1<<20), 1<<24)
	abs := func(dir, p string) string {
		if filepath.IsAbs(p) {
			return filepath.Clean(p)
		}
		if dir == "" {
			dir = cwd
		}
		return filepath.Join(dir, p)
	}
	for sc.Scan() {
		m := straceLine.FindStringSubmatch(sc.Text())
		if m == nil {
			continue
		}
		pid, rest := m[1], m[2]
		if first {
			plz[pid] = true
			first = false
		}
		if strings.HasPrefix(rest, "+++") || strings.HasPrefix(rest, "---") {
			continue
		}
		if strings.HasSuffix(rest, "<unfinished ...>") {
			pending[pid] = strings.TrimSuffix(rest, "<unfinished ...>")
			continue
		}
		if r := resumedRe.FindStringSubmatch(rest); r != nil {
			rest = pending[pid] + r[2]
			delete(pending, pid)
		}
		open := strings.Index(rest, "(")
		eq := strings.LastIndex(rest, ") = ")
		if open < 0 || eq < 0 {
			continue
		}
		name, args, ret := rest[:open], splitArgs(rest[open+1:eq]), strings.TrimSpace(rest[eq+4:])
		if strings.HasPrefix(ret, "-1") || strings.HasPrefix(ret, "?") {
			continue
		}
		switch name {
		case "clone", "clone3", "fork", "vfork":
			if plz[pid] && strings.Contains(rest, "CLONE_THREAD") {
				plz[strings.Fields(ret)[0]] = true
			}
			continue
		case "execve":
			if len(evs) > 0 || len(plz) > 1 {
				delete(plz, pid) // a spawned process (never happens to a plz thread; kept for safety)
			}
			continue
		case "chdir":
			if plz[pid] {
				if p, ok := unquote(args[0]); ok {
					cwd = abs("", p)
				}
			}
			continue
		}
		if !plz[pid] {
			continue
		}
		ev := SysEvent{Line: sc.Text()}
		str := func(i int) string {
			if i < len(args) {
				if s, ok := unquote(args[i]); ok {
					return s
				}
			}
			return ""
		}
		switch name {
		case "mkdir":
			ev.Kind, ev.Path = "mkdir", abs("", str(0))
		case "mkdirat":
			ev.Kind, ev.Path = "mkdir", abs(fdPath(args[0]), str(1))
		case "rmdir", "unlink":
			ev.Kind, ev.Path = "rm", abs("", str(0))
		case "unlinkat":
			ev.Kind, ev.Path = "rm", abs(fdPath(args[0]), str(1))
		case "rename":
			ev.Kind, ev.Path2, ev.Path = "rename", abs("", str(0)), abs("", str(1))
		case "renameat", "renameat2":
			ev.Kind, ev.Path2, ev.Path = "rename", abs(fdPath(args[0]), str(1)), abs(fdPath(args[2]), str(3))
		case "link":
			ev.Kind, ev.Path2, ev.Path = "link", abs("", str(0)), abs("", str(1))
		case "linkat":
			ev.Kind, ev.Path2, ev.Path = "link", abs(fdPath(args[0]), str(1)), abs(fdPath(args[2]), str(3))
		case "symlink":
			ev.Kind, ev.Path = "symlink", abs("", str(1))
		case "symlinkat":
			ev.Kind, ev.Path = "symlink", abs(fdPath(args[1]), str(2))
		case "open", "openat", "openat2", "creat":
			flags := rest[open:eq]
			if name != "creat" && !strings.Contains(flags, "O_WRONLY") && !strings.Contains(flags, "O_RDWR") && !strings.Contains(flags, "O_CREAT") && !strings.Contains(flags, "O_TRUNC") {
				continue
			}
			ev.Kind = "openw"
			if p := fdPath(ret); p != "" {
				ev.Path = p
			} else if name == "openat" || name == "openat2" {
				ev.Path = abs(fdPath(args[0]), str(1))
			} else {
				ev.Path = abs("", str(0))
			}
		case "chmod":
			ev.Kind, ev.Path = "chmod", abs("", str(0))
		case "fchmodat":
			ev.Kind, ev.Path = "chmod", abs(fdPath(args[0]), str(1))
		case "fchmod":
			ev.Kind, ev.Path, ev.ByFD = "chmod", fdPath(args[0]), true
		case "chown", "lchown":
			ev.Kind, ev.Path = "chown", abs("", str(0))
		case "fchownat":
			ev.Kind, ev.Path = "chown", abs(fdPath(args[0]), str(1))
		case "fchown":
			ev.Kind, ev.Path, ev.ByFD = "chown", fdPath(args[0]), true
		case "truncate":
			ev.Kind, ev.Path = "truncate", abs("", str(0))
		case "ftruncate":
			ev.Kind, ev.Path, ev.ByFD = "truncate", fdPath(args[0]), true
		case "utime", "utimes":
			ev.Kind, ev.Path = "utimes", abs("", str(0))
		case "utimensat", "futimesat":
			if s := str(1); s != "" {
				ev.Kind, ev.Path = "utimes", abs(fdPath(args[0]), s)
			} else {
				ev.Kind, ev.Path, ev.ByFD = "utimes", fdPath(args[0]), true
			}
		case "setxattr", "lsetxattr":
			ev.Kind, ev.Path = "setxattr", abs("", str(0))
		case "fsetxattr":
			ev.Kind, ev.Path, ev.ByFD = "setxattr", fdPath(args[0]), true
		case "removexattr", "lremovexattr":
			ev.Kind, ev.Path = "rmxattr", abs("", str(0))
		case "fremovexattr":
			ev.Kind, ev.Path, ev.ByFD = "rmxattr", fdPath(args[0]), true
		default:
			continue
		}
		evs = append(evs, ev)
	}
	return evs, sc.Err()
}

// SeamOp is one line of the seam's trace.
type SeamOp struct {
	Op, Path, Path2 string // absolute; for rename/link/symlink Path is the destination and Path2 the source
}

// ParseSeamTrace reads a VOS_TRACE file; relative paths are relative to cwd.
func ParseSeamTrace(file, cwd string) []SeamOp {
	b, _ := os.ReadFile(file)
	var ops []SeamOp
	abs := func(p string) string {
		if filepath.IsAbs(p) {
			return filepath.Clean(p)
		}
		return filepath.Join(cwd, p)
	}
	for _, l := range strings.Split(strings.TrimSpace(string(b)), "\n") {
		fs := strings.SplitN(l, " ", 3)
		if len(fs) < 3 {
			continue
		}
		o := SeamOp{Op: fs[1]}
		switch {
		case strings.Contains(fs[2], " -> "):
			ab := strings.SplitN(fs[2], " -> ", 2)
			o.Path2, o.Path = ab[0], abs(ab[1])
			if o.Op != "symlink" {
				o.Path2 = abs(ab[0])
			}
		case strings.HasSuffix(o.Op, "xattr"):
			o.Path = abs(strings.SplitN(fs[2], " ", 2)[0])
		default:
			o.Path = abs(fs[2])
		}
		ops = append(ops, o)
	}
	return ops
}

func under(p, dir string) bool { return p == dir || strings.HasPrefix(p, dir+"/") }

// explains says whether seam operation o accounts for kernel event e.
func explains(o SeamOp, e SysEvent) bool {
	switch e.Kind {
	case "mkdir":
		// MkdirAll creates the path and any missing parent; MkdirTemp / CreateTemp name a pattern inside a directory
		return (o.Op == "mkdir" && o.Path == e.Path) || (o.Op == "mkdirall" && under(o.Path, e.Path)) ||
			(o.Op == "mkdirtemp" && filepath.Dir(o.Path) == filepath.Dir(e.Path))
	case "rm":
		return (o.Op == "remove" && o.Path == e.Path) || (o.Op == "removeall" && under(e.Path, o.Path))
	case "rename":
		return o.Op == "rename" && o.Path == e.Path && o.Path2 == e.Path2
	case "link":
		return o.Op == "link" && o.Path == e.Path && o.Path2 == e.Path2
	case "symlink":
		return o.Op == "symlink" && o.Path == e.Path
	case "openw":
		return ((o.Op == "create" || o.Op == "openfile" || o.Op == "writefile") && o.Path == e.Path) ||
			(o.Op == "createtemp" && filepath.Dir(o.Path) == filepath.Dir(e.Path))
	case "chmod":
		return (o.Op == "chmod" && o.Path == e.Path) || (e.ByFD && opensForWrite(o, e.Path)) ||
			(o.Op == "writefile" && o.Path == e.Path) || (o.Op == "removeall" && under(e.Path, o.Path)) // RemoveAll may chmod a directory it cannot read
	case "truncate":
		return (o.Op == "truncate" && o.Path == e.Path) || (e.ByFD && opensForWrite(o, e.Path))
	case "utimes":
		return (o.Op == "chtimes" && o.Path == e.Path) || (e.ByFD && opensForWrite(o, e.Path))
	case "chown":
		return e.ByFD && opensForWrite(o, e.Path)
	case "setxattr":
		return (o.Op == "setxattr" || o.Op == "lsetxattr") && o.Path == e.Path
	case "rmxattr":
		return (o.Op == "removexattr" || o.Op == "lremovexattr") && o.Path == e.Path
	}
	return false
}

// opensForWrite: a descriptor-based change of a file is covered by the seam operation that opened the file for writing
// (the seam's crash points are "before the open" and "before the next operation", the torn variant cuts the file).
func opensForWrite(o SeamOp, path string) bool {
	return (o.Op == "create" || o.Op == "openfile" || o.Op == "writefile") && o.Path == path ||
		(o.Op == "createtemp" && filepath.Dir(o.Path) == filepath.Dir(path))
}

// SeamGaps returns the kernel events below scope (and not below any of the unowned prefixes) that no seam operation
// explains, and the number of events that were checked.
func SeamGaps(evs []SysEvent, ops []SeamOp, scope string, unowned []string) (gaps []string, checked int) {
	seen := map[string]bool{}
next:
	for _, e := range evs {
		if !under(e.Path, scope) {
			continue
		}
		for _, u := range unowned {
			if under(e.Path, u) {
				continue next
			}
		}
		checked++
		for _, o := range ops {
			if explains(o, e) {
				continue next
			}
		}
		k := e.Kind + " " + e.Path
		if !seen[k] {
			seen[k] = true
			gaps = append(gaps, k+"   <= "+e.Line)
		}
	}
	sort.Strings(gaps)
	return gaps, checked
}

package hist

import (
	"fmt"
	"strings"
)

// ---------------------------------------------------------------------------------------------
// TestFam (C11): one library genrule (//p:lib, from lib.txt) and one gentest (//p:t) whose "binary" t.bin is built from
// t.txt, with data = [data.txt, :lib (, ddir)]. The verdict of the test is a function of the data file, of the
// dependency's output, of the test binary, of the test_cmd text and (WithDir) of the NAME of a file inside a data
// directory. Every transition is `plz test //p:all`. All commands use shell builtins only and append their label to the
// action log outside the repository (the test runs in plz-out/tmp/p/t._test/run_1: six levels below the scratch dir).

const testLogPfx = "echo %s >> ../../../../../../actions.log; "

type TestFam struct {
	WithDir  bool // add a directory to data whose file NAME the test looks at (edit: rename the file)
	WithBin  bool // include edits of the test binary's source
	WithRm   bool
	WithNoop bool
	WithArgs bool // invocations may pass a test argument that makes the test skip its real work (initial tree fails without it)
}

func (c TestFam) fields() []field {
	if c.WithArgs {
		return []field{
			{"data", []string{"bad", "ok"}, "data-file"},
			{"targs", []string{"", "skip"}, "test-arguments"},
		}
	}
	fs := []field{
		{"data", []string{"ok", "bad"}, "data-file"},
		{"lib", []string{"ok", "bad"}, "dep-source"},
		{"tcmd", []string{"0", "1", "2"}, "test_cmd"},
		{"fgd", []string{"ok", "ok2", "bad"}, "data-file-behind-filegroup"}, // two different passing contents, then a failing one
	}
	if c.WithBin {
		fs = append(fs, field{"bin", []string{"ok", "bad"}, "test-binary-source"})
	}
	if c.WithDir {
		fs = append(fs, field{"dname", []string{"x.txt", "y.txt"}, "rename-in-data-dir"})
	}
	return fs
}

func (c TestFam) Name() string {
	if c.WithArgs {
		return "test-args"
	}
	if c.WithDir {
		return "test-dirdata"
	}
	return "test"
}

func (c TestFam) Initial() Src {
	s := initialOf(c.fields())
	if !c.WithBin {
		s["bin"] = "ok"
	}
	if c.WithArgs {
		s["lib"], s["tcmd"], s["fgd"] = "ok", "0", "ok"
	}
	return s
}

func (c TestFam) Edits(s Src) []Edit {
	es := editsOver(c.fields(), s, nil)
	if c.WithNoop {
		es = append(es, Noop(s))
	}
	if c.WithRm {
		es = append(es, RmPlzOut(s))
	}
	return es
}

// TestCmd is the text of the test command for s.
func (c TestFam) TestCmd(s Src) string {
	base := "read -r d < p/data.txt; read -r l < p/lib.out; read -r b < $TEST; read -r f < p/fd.txt; [ \"$d\" = ok ] && [ \"$l\" = ok ] && [ \"$b\" = ok ] && [ \"${f#ok}\" != \"$f\" ]"
	if c.WithDir {
		base += " && [ -e p/ddir/x.txt ]"
	}
	switch s["tcmd"] {
	case "1":
		base = ": v1; " + base // different text, same verdict
	case "2":
		base += " && false" // always fails
	}
	if c.WithArgs {
		// `plz test //p:t -- skip` sets $TESTS and appends the argument to the command (hence the trailing comment marker)
		return fmt.Sprintf(testLogPfx, "//p:t") + "if [ \"${TESTS:-}\" = skip ]; then exit 0; fi; " + base + "; exit $? #"
	}
	return fmt.Sprintf(testLogPfx, "//p:t") + base
}

func (c TestFam) Files(s Src) map[string]string {
	var b strings.Builder
	fmt.Fprintf(&b, "genrule(name=\"lib\", srcs=[\"lib.txt\"], outs=[\"lib.out\"], cmd=%q)\n", fmt.Sprintf(logPfx, "//p:lib")+catCmd)
	fmt.Fprintf(&b, "filegroup(name=\"fgd\", srcs=[\"fd.txt\"])\n") // its output is a hard link to the source file
	data := "\"data.txt\", \":lib\", \":fgd\""
	if c.WithDir {
		data += ", \"ddir\""
	}
	fmt.Fprintf(&b, "gentest(name=\"t\", srcs=[\"t.txt\"], outs=[\"t.bin\"], data=[%s], no_test_output=True, cmd=%q, test_cmd=%q)\n",
		data, fmt.Sprintf(logPfx, "//p:t#build")+catCmd, c.TestCmd(s))
	fs := map[string]string{"p/BUILD": b.String(), "p/lib.txt": s["lib"] + "\n", "p/t.txt": s["bin"] + "\n", "p/data.txt": s["data"] + "\n", "p/fd.txt": s["fgd"] + "\n"}
	if c.WithDir {
		fs["p/ddir/"+s["dname"]] = "x\n"
	}
	return fs
}

func (c TestFam) Targets(s Src) []Target {
	return []Target{{"//p:lib", []string{"plz-out/gen/p/lib.out"}}, {"//p:fgd", []string{"plz-out/gen/p/fd.txt"}}, {"//p:t", []string{"plz-out/bin/p/t.bin"}}}
}

func (c TestFam) Args(s Src) ([]string, []string) {
	if c.WithArgs {
		a := []string{"test", "--plain_output", "-v", "warning", "-n", "1", "//p:t"}
		if s["targs"] != "" {
			a = append(a, "--", s["targs"])
		}
		return a, nil
	}
	return []string{"test", "--plain_output", "-v", "warning", "-n", "1", "//p:all"}, nil
}

// Passes is the boring reference: the verdict the test command must have on tree s.
func (c TestFam) Passes(s Src) bool {
	if c.WithArgs && s["targs"] == "skip" {
		return true
	}
	ok := s["data"] == "ok" && s["lib"] == "ok" && s["bin"] == "ok" && s["tcmd"] != "2" && strings.HasPrefix(s["fgd"], "ok")
	if c.WithDir {
		ok = ok && s["dname"] == "x.txt"
	}
	return ok
}

// RuntimeSig is everything the statement lists as a runtime input of the test: test command, test binary (its source),
// data files (content, and names inside a data directory), runtime dependencies (the library's source).
func (c TestFam) RuntimeSig(s Src) string {
	sig := "test_cmd=" + s["tcmd"] + "|test-binary=" + s["bin"] + "|data-file=" + s["data"] + "|dep-output=" + s["lib"] + "|data-file-behind-filegroup=" + s["fgd"]
	if c.WithArgs {
		sig += "|test-arguments=" + s["targs"] // a run restricted by arguments is not a run of the whole test
	}
	if c.WithDir {
		sig += "|name-in-data-dir=" + s["dname"]
	}
	return sig
}

// SigDiff names the components in which two runtime signatures differ.
func SigDiff(a, b string) []string {
	pa, pb := strings.Split(a, "|"), strings.Split(b, "|")
	var d []string
	for i := range pa {
		if i >= len(pb) || pa[i] != pb[i] {
			d = append(d, strings.SplitN(pa[i], "=", 2)[0])
		}
	}
	return d
}

// NearestDiff returns the smallest set of components in which sig differs from any signature of set ("none" if the set is empty).
func NearestDiff(sig string, set map[string]bool) string {
	best := ""
	bestN := -1
	for _, k := range SortedNames(set) {
		d := SigDiff(sig, k)
		if bestN < 0 || len(d) < bestN {
			best, bestN = strings.Join(d, ","), len(d)
		}
	}
	if bestN < 0 {
		return "none"
	}
	return best
}

// ShareOracle makes e use o's memo of clean builds (same family, same oracle configuration).
func (e *Engine) ShareOracle(o *Engine) {
	e.clean, e.cleanMu = o.clean, o.cleanMu
}

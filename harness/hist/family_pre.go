package hist

import "fmt"

// ---------------------------------------------------------------------------------------------
// PreFam: //p:t has a pre-build function that reads a label of its dependency //p:d and sets t's command from it. The
// dependency's OUTPUT never changes, only its label does: the effective definition of t (its command) changes through the
// pre-build function alone, so the rule hash that decides about rebuilding must be the one taken AFTER that function ran.

type PreFam struct {
	WithNoop bool
	WithRm   bool
}

var preFields = []field{
	{"flag", []string{"one", "two"}, "label-read-by-pre-build-function"},
	{"tail", []string{"", "x"}, "text-appended-by-pre-build-function"},
}

func (c PreFam) Name() string { return "prebuild" }
func (c PreFam) Initial() Src { return initialOf(preFields) }
func (c PreFam) Edits(s Src) []Edit {
	es := editsOver(preFields, s, nil)
	if c.WithNoop {
		es = append(es, Noop(s))
	}
	if c.WithRm {
		es = append(es, RmPlzOut(s))
	}
	return es
}

func (c PreFam) Files(s Src) map[string]string {
	b := "def _pre(name):\n" +
		"    flags = get_labels(name, \"flag:\")\n" +
		fmt.Sprintf("    set_command(name, %q + \"echo flags \" + \" \".join(flags) + \" > $OUT\")\n", fmt.Sprintf(logPfx, "//p:t")) +
		fmt.Sprintf("build_rule(name=\"d\", outs=[\"d.out\"], cmd=%q, labels=[\"flag:%s%s\"])\n", fmt.Sprintf(logPfx, "//p:d")+"echo d > $OUT", s["flag"], s["tail"]) +
		"build_rule(name=\"t\", outs=[\"t.out\"], deps=[\":d\"], cmd=\"echo never used > $OUT\", pre_build=_pre)\n"
	return map[string]string{"p/BUILD": b}
}

func (c PreFam) Targets(s Src) []Target {
	return []Target{{"//p:d", []string{"plz-out/gen/p/d.out"}}, {"//p:t", []string{"plz-out/gen/p/t.out"}}}
}

func (c PreFam) Args(s Src) ([]string, []string) {
	return []string{"build", "--plain_output", "-v", "warning", "-n", "1", "//p:all"}, nil
}

// Sigs: what each target's command run depends on (definition text + inputs).
func (c PreFam) Sigs(s Src, clean *Obs) map[string]string {
	return map[string]string{
		"//p:d": "d|" + s["flag"] + s["tail"], // d's labels are part of its definition
		"//p:t": "t|" + s["flag"] + s["tail"] + "|" + clean.Outs["//p:d"],
	}
}

// C19: the BUILD parser is total and fails only with positioned errors.
//
// Bounded-exhaustive enumeration of byte strings through the real asp.Parser.ParseData:
//   - "tok":   every token string of length <= L over two alphabets (lexer branch points / grammar branch points),
//     joined with "" and with " ";
//   - "file":  every prefix and every single-byte deletion of the repository's own BUILD / build_defs files;
//   - "depth": a ladder of repetition counts of the recursive constructs of the grammar and the lexer.
//
// All inputs run inside worker subprocesses (re-exec of this binary) so that a crash (Go stack overflow is not
// recoverable) or a hang of the parser is an observed OUTCOME of the input, found by re-running the batch in
// "careful" mode (the worker announces each case before it runs it).
package main

import (
	"bufio"
	"bytes"
	"encoding/json"
	"errors"
	"fmt"
	"io"
	"os"
	"os/exec"
	"path/filepath"
	"regexp"
	"runtime"
	"runtime/debug"
	"sort"
	"strconv"
	"strings"
	"sync"
	"sync/atomic"
	"time"

	"github.com/thought-machine/please/src/core"
	"github.com/thought-machine/please/src/parse/asp"
	"github.com/thought-machine/please/verifharness/lib"
)

// inputName is the file name given to ParseData; it must not exist on disk (errors.go opens it to compute lines).
const inputName = "verif_c19_input.build"

var runtimeRe = regexp.MustCompile(`runtime error|index out of range|nil pointer|slice bounds`)

// alphabets. 0 = lexer branch points (DESIGN §4 C19), 1 = grammar branch points (keywords/operators of grammar_parse.go).
var alphabets = [][]string{
	{`"a"`, `f"b"`, `f"{x}"`, `r"c"`, `'`, `"`, `(`, `)`, `[`, `]`, `{`, `}`, `:`, `,`, `=`, `x`, `1`, `-`, `not`, `in`, "\n", "\n  ", `\`, "\x00", `#`, "\x80"},
	{`x`, `"a"`, `f"b"`, `f"{x}"`, `1`, `(`, `)`, `[`, `]`, `{`, `}`, `:`, `,`, `=`, `.`, `+`, `+=`, `-`, `|`, `&`, `->`, `not`, `in`, `is`, `and`, `if`, `else`, `elif`, `for`, `def`, `lambda`, `pass`, `return`, `str`, "\n", "\n  "},
}
var joiners = []string{"", " "}

// A Case identifies one input. Raw (when present) is authoritative.
type Case struct {
	Kind  string `json:"kind"` // tok | file | depth | raw
	Alpha int    `json:"alpha,omitempty"`
	N     int    `json:"n,omitempty"`
	Join  int    `json:"join,omitempty"`
	Idx   int64  `json:"idx,omitempty"` // tok: index in the space; file: byte position
	Path  string `json:"path,omitempty"`
	Mode  string `json:"mode,omitempty"` // prefix | delete
	Unit  string `json:"unit,omitempty"`
	Reps  int    `json:"reps,omitempty"`
	Tail  string `json:"tail,omitempty"`
	Head  string `json:"head,omitempty"` // depth: text before the repeated unit
	Raw   []byte `json:"raw,omitempty"`
	Text  string `json:"text,omitempty"`
}

var repoRoot = func() string {
	if v := os.Getenv("VERIF_REPO"); v != "" {
		return v
	}
	return "/repo"
}()

var fileCache = map[string][]byte{}

func fileBytes(rel string) []byte {
	if b, ok := fileCache[rel]; ok {
		return b
	}
	b, err := os.ReadFile(filepath.Join(repoRoot, rel))
	if err != nil {
		lib.Fatal("corpus file %s: %s", rel, err)
	}
	fileCache[rel] = b
	return b
}

func ipow(b, n int) int64 {
	r := int64(1)
	for i := 0; i < n; i++ {
		r *= int64(b)
	}
	return r
}

// bytesOf materialises the input of a case.
func (c *Case) bytesOf() []byte {
	if c.Raw != nil || c.Kind == "raw" {
		return c.Raw
	}
	switch c.Kind {
	case "tok":
		a := alphabets[c.Alpha]
		digits := make([]int, c.N)
		x := c.Idx
		for i := c.N - 1; i >= 0; i-- {
			digits[i] = int(x % int64(len(a)))
			x /= int64(len(a))
		}
		var b []byte
		for i, d := range digits {
			if i > 0 {
				b = append(b, joiners[c.Join]...)
			}
			b = append(b, a[d]...)
		}
		if b == nil {
			b = []byte{}
		}
		return b
	case "file":
		f := fileBytes(c.Path)
		if c.Mode == "prefix" {
			return f[:c.Idx]
		}
		out := make([]byte, 0, len(f))
		out = append(out, f[:c.Idx]...)
		return append(out, f[c.Idx+1:]...)
	case "depth":
		return []byte(c.Head + strings.Repeat(c.Unit, c.Reps) + c.Tail)
	}
	lib.Fatal("unknown case kind %q", c.Kind)
	return nil
}

// describe fills Raw/Text for the artefact (small inputs only).
func (c Case) describe() Case {
	b := c.bytesOf()
	if len(b) <= 1<<16 {
		c.Raw = append([]byte{}, b...)
		if len(b) <= 400 {
			c.Text = strconv.QuoteToASCII(string(b))
		}
	}
	return c
}

// ---------------------------------------------------------------------------------------------------------------
// The oracle (runs in the worker).

type verdict struct {
	Class      string
	Detail     string
	Accepted   bool
	Nontrivial bool
	PosOutside bool
}

func siteOf(stack []byte) string {
	lines := strings.Split(string(stack), "\n")
	seenPanic := false
	const pfx = "github.com/thought-machine/please/src/parse/asp."
	for _, l := range lines {
		if strings.HasPrefix(l, "panic(") {
			seenPanic = true
			continue
		}
		if !seenPanic || !strings.HasPrefix(l, pfx) {
			continue
		}
		name := strings.TrimPrefix(l, pfx)
		if i := strings.LastIndex(name, "("); i > 0 {
			name = name[:i]
		}
		if strings.Contains(name, "VerifParseRawC19") || name == "fail" || name == "AddStackFrame" || strings.HasSuffix(name, ".fail") {
			continue
		}
		return name
	}
	return "unknown"
}

// rawSite finds the function in package asp whose code panicked (classification only).
func rawSite(data []byte) (site string) {
	site = "unknown"
	defer func() {
		if r := recover(); r != nil {
			site = siteOf(debug.Stack())
		}
	}()
	asp.VerifParseRawC19(data, inputName)
	return site
}

func evalOnce(p *asp.Parser, data []byte) (v verdict) {
	defer func() {
		if r := recover(); r != nil {
			v = verdict{Class: "escaped-panic@" + siteOf(debug.Stack()), Detail: fmt.Sprintf("ParseData panicked: %v", r)}
		}
	}()
	stmts, err := p.ParseData(data, inputName)
	if err == nil {
		return verdict{Accepted: true, Nontrivial: len(stmts) > 0}
	}
	cause := asp.VerifErrCauseC19(err)
	msg := cause.Error()
	_ = err.Error() // the text shown to the user must be computable without panicking, too
	pos, positioned := asp.VerifErrPosC19(err)
	var re runtime.Error
	if errors.As(cause, &re) || (runtimeRe.MatchString(msg) && !runtimeRe.Match(data)) {
		pd := "without a position"
		if positioned {
			pd = "at " + pos.String()
		}
		return verdict{Class: "internal-runtime-error@" + rawSite(data), Detail: fmt.Sprintf("ParseData returned the internal error %q (%T) %s", msg, cause, pd)}
	}
	if !positioned {
		return verdict{Class: fmt.Sprintf("unpositioned-error:%T", cause), Detail: fmt.Sprintf("ParseData returned %q (%T) which carries no source position", msg, err)}
	}
	v.Nontrivial = pos.Offset > 1
	v.PosOutside = pos.Offset < 1 || pos.Offset > len(data)+2
	return v
}

// shrink deletes chunks while the class is preserved.
func shrink(p *asp.Parser, data []byte, class string) []byte {
	data = append([]byte{}, data...)
	for changed := true; changed; {
		changed = false
		for chunk := len(data) / 2; chunk >= 1; chunk /= 2 {
			for i := 0; i+chunk <= len(data); {
				cand := append(append([]byte{}, data[:i]...), data[i+chunk:]...)
				if evalOnce(p, cand).Class == class {
					data, changed = cand, true
				} else {
					i += chunk
				}
			}
		}
	}
	return data
}

// ---------------------------------------------------------------------------------------------------------------
// Worker protocol.

type Batch struct {
	Case    Case  `json:"case"` // template; Idx (or Reps) is replaced by Lo..Hi-1
	Lo      int64 `json:"lo"`
	Hi      int64 `json:"hi"`
	Careful bool  `json:"careful"`
	HangSec int   `json:"hang_sec"`
}

type ViolRec struct {
	Case   Case   `json:"case"`
	Class  string `json:"class"`
	Detail string `json:"detail"`
	Len    int    `json:"len"`
}

type Msg struct {
	T          string         `json:"t"` // start | done | hang
	I          int64          `json:"i,omitempty"`
	Evals      int64          `json:"evals,omitempty"`
	Accepted   int64          `json:"accepted,omitempty"`
	Nontrivial int64          `json:"nontrivial,omitempty"`
	PosOutside int64          `json:"pos_outside,omitempty"`
	PosSample  *Case          `json:"pos_sample,omitempty"`
	Counts     map[string]int `json:"counts,omitempty"`
	Viol       []ViolRec      `json:"viol,omitempty"`
	Nondet     string         `json:"nondet,omitempty"`
	Seconds    float64        `json:"seconds,omitempty"`
}

func smaller(a, b ViolRec) bool {
	if a.Len != b.Len {
		return a.Len < b.Len
	}
	return bytes.Compare(a.Case.Raw, b.Case.Raw) < 0
}

func workerMain() {
	lib.Quiet()
	debug.SetGCPercent(400)
	p := asp.NewParser(core.NewDefaultBuildState())
	var mu sync.Mutex
	out := bufio.NewWriter(os.Stdout)
	emit := func(m Msg) {
		mu.Lock()
		defer mu.Unlock()
		b, _ := json.Marshal(m)
		out.Write(b)
		out.WriteByte('\n')
		out.Flush()
	}
	var seq, cur, hangNs atomic.Int64
	hangNs.Store(int64(10 * time.Second))
	go func() { // watchdog: a single input that does not finish is reported and ends the worker
		last, since := int64(-1), time.Now()
		for {
			time.Sleep(200 * time.Millisecond)
			s := seq.Load()
			if s != last || s%2 == 0 { // even = idle between cases
				last, since = s, time.Now()
				continue
			}
			if time.Since(since) > time.Duration(hangNs.Load()) {
				emit(Msg{T: "hang", I: cur.Load()})
				os.Exit(3)
			}
		}
	}()
	shrunk := map[string]bool{}
	dec := json.NewDecoder(bufio.NewReaderSize(os.Stdin, 1<<20))
	for {
		var b Batch
		if err := dec.Decode(&b); err != nil {
			if err == io.EOF {
				return
			}
			lib.Fatal("worker: bad batch: %s", err)
		}
		if b.HangSec > 0 {
			hangNs.Store(int64(time.Duration(b.HangSec) * time.Second))
		}
		t0 := time.Now()
		res := Msg{T: "done", Counts: map[string]int{}}
		best := map[string]*ViolRec{}
		for i := b.Lo; i < b.Hi; i++ {
			c := b.Case
			if c.Kind == "depth" {
				c.Reps = int(i)
			} else {
				c.Idx = i
			}
			data := c.bytesOf()
			if b.Careful {
				emit(Msg{T: "start", I: i})
			}
			cur.Store(i)
			seq.Add(1) // odd: running
			v := evalOnce(p, data)
			seq.Add(1) // even: idle
			res.Evals++
			if v.Accepted {
				res.Accepted++
			}
			if v.Nontrivial {
				res.Nontrivial++
			}
			if v.PosOutside {
				res.PosOutside++
				if res.PosSample == nil {
					d := c.describe()
					res.PosSample = &d
				}
			}
			if v.Class == "" {
				continue
			}
			if v2 := evalOnce(p, data); v2.Class != v.Class {
				res.Nondet = fmt.Sprintf("case %+v: first run %q, second run %q", c.describe(), v.Class, v2.Class)
			}
			res.Counts[v.Class]++
			if c.Kind != "tok" && !shrunk[v.Class] && len(data) <= 1<<17 {
				// corpus / depth cases are not enumerated by size: shrink the first one of each class
				shrunk[v.Class] = true
				seq.Add(1)
				small := shrink(p, data, v.Class)
				seq.Add(1)
				c = Case{Kind: "raw", Raw: small}
				data = small
				v = evalOnce(p, data)
			}
			if nv := (ViolRec{Case: c.describe(), Class: v.Class, Detail: v.Detail, Len: len(data)}); best[v.Class] == nil || smaller(nv, *best[v.Class]) {
				best[v.Class] = &nv
			}
		}
		for _, v := range best {
			res.Viol = append(res.Viol, *v)
		}
		sort.Slice(res.Viol, func(i, j int) bool { return res.Viol[i].Class < res.Viol[j].Class })
		res.Seconds = time.Since(t0).Seconds()
		emit(res)
	}
}

// ---------------------------------------------------------------------------------------------------------------
// Main side: worker management.

type tailBuf struct {
	mu sync.Mutex
	b  []byte
}

func (t *tailBuf) Write(p []byte) (int, error) {
	t.mu.Lock()
	defer t.mu.Unlock()
	if len(t.b) < 1<<16 { // the head is what identifies a Go fatal error
		t.b = append(t.b, p...)
	}
	return len(p), nil
}

func (t *tailBuf) String() string {
	t.mu.Lock()
	defer t.mu.Unlock()
	return string(t.b)
}

type worker struct {
	cmd    *exec.Cmd
	stdin  io.WriteCloser
	sc     *bufio.Scanner
	stderr *tailBuf
}

func spawn() *worker {
	cmd := exec.Command(os.Args[0], "--c19-worker")
	cmd.Env = append(os.Environ(), "GOMAXPROCS=2")
	w := &worker{cmd: cmd, stderr: &tailBuf{}}
	cmd.Stderr = w.stderr
	var err error
	if w.stdin, err = cmd.StdinPipe(); err != nil {
		lib.Fatal("spawn: %s", err)
	}
	so, err := cmd.StdoutPipe()
	if err != nil {
		lib.Fatal("spawn: %s", err)
	}
	if err := cmd.Start(); err != nil {
		lib.Fatal("spawn: %s", err)
	}
	w.sc = bufio.NewScanner(so)
	w.sc.Buffer(make([]byte, 1<<20), 1<<28)
	return w
}

func (w *worker) kill() {
	w.stdin.Close()
	w.cmd.Process.Kill()
	w.cmd.Wait()
}

type outcome struct {
	done   *Msg
	last   int64 // last announced case (careful mode), -1 if none
	hang   bool
	stderr string
	exit   string
}

// run sends one batch and waits for its result or for the worker's death.
func (w *worker) run(b Batch) outcome {
	js, _ := json.Marshal(b)
	o := outcome{last: -1}
	if _, err := w.stdin.Write(append(js, '\n')); err != nil {
		o.exit = "write: " + err.Error()
	}
	kill := time.AfterFunc(time.Duration(b.HangSec+600)*time.Second, func() { w.cmd.Process.Kill() })
	defer kill.Stop()
	for w.sc.Scan() {
		var m Msg
		if err := json.Unmarshal(w.sc.Bytes(), &m); err != nil {
			lib.Fatal("worker protocol: %s: %.200s", err, w.sc.Text())
		}
		switch m.T {
		case "start":
			o.last = m.I
		case "hang":
			o.hang = true
			o.last = m.I
		case "done":
			o.done = &m
			return o
		}
	}
	err := w.cmd.Wait()
	if err != nil {
		o.exit = err.Error()
	}
	o.stderr = w.stderr.String()
	return o
}

var stackFnRe = regexp.MustCompile(`src/parse/asp\.(\(\*\w+\)\.\w+|\w+)\(`)

// crashClass names a worker death by its cause.
func crashClass(o outcome) (class, detail string) {
	if o.hang {
		return "hang:no-result-within-watchdog", "the parser did not return within the per-input watchdog"
	}
	se := o.stderr
	head := se
	if len(head) > 600 {
		head = head[:600]
	}
	if strings.Contains(se, "stack overflow") || strings.Contains(se, "goroutine stack exceeds") {
		kind := "lexer-nextToken"
		fns := map[string]bool{}
		for _, m := range stackFnRe.FindAllStringSubmatch(se, -1) {
			fns[m[1]] = true
		}
		for f := range fns {
			if strings.HasPrefix(f, "(*parser)") || f == "concatStrings" {
				kind = "parser"
			}
		}
		return "crash:stack-overflow:unbounded-recursion:" + kind, "the process died with Go's unrecoverable 'fatal error: stack overflow' (" + o.exit + "): " + head
	}
	if strings.Contains(se, "fatal error:") {
		i := strings.Index(se, "fatal error:")
		line := se[i:]
		if j := strings.IndexByte(line, '\n'); j > 0 {
			line = line[:j]
		}
		return "crash:" + strings.ReplaceAll(strings.TrimSpace(line), " ", "-"), "the process died (" + o.exit + "): " + head
	}
	if strings.Contains(se, "HARNESS-ERROR") {
		lib.Fatal("worker: %s", se)
	}
	return "crash:process-died:" + strings.ReplaceAll(o.exit, " ", "-"), "the process died (" + o.exit + "): " + head
}

// fatalOutcomes counts inputs that killed or hung a worker. Isolating one costs three process lifetimes (and up to
// three watchdog periods), so after a few of them the enumeration stops early (exhaustive=false): the violation is
// established and a systematic hang would otherwise make the run take days.
var fatalOutcomes atomic.Int64

const maxFatalOutcomes = 3

type agg struct {
	mu         sync.Mutex
	evals      int64
	accepted   int64
	nontrivial int64
	posOutside int64
	posSample  *Case
	counts     map[string]int
	best       map[string]ViolRec
	perSpace   map[string]int64
	samples    lib.Samples
}

func (a *agg) merge(space string, m *Msg) {
	a.mu.Lock()
	defer a.mu.Unlock()
	if m.Nondet != "" {
		lib.Fatal("HARNESS-NONDETERMINISM %s", m.Nondet)
	}
	a.evals += m.Evals
	a.accepted += m.Accepted
	a.nontrivial += m.Nontrivial
	a.posOutside += m.PosOutside
	if a.posSample == nil && m.PosSample != nil {
		a.posSample = m.PosSample
	}
	a.perSpace[space] += m.Evals
	for k, n := range m.Counts {
		a.counts[k] += n
	}
	for _, v := range m.Viol {
		if old, ok := a.best[v.Class]; !ok || smaller(v, old) {
			a.best[v.Class] = v
		}
	}
}

func (a *agg) crash(space string, c Case, class, detail string) {
	if space != "depth" {
		fatalOutcomes.Add(1)
	}
	a.mu.Lock()
	defer a.mu.Unlock()
	a.evals++
	a.nontrivial++
	a.perSpace[space]++
	a.counts[class]++
	d := c.describe()
	if old, ok := a.best[class]; !ok || d.lenOr() < old.Len {
		a.best[class] = ViolRec{Case: d, Class: class, Detail: detail, Len: d.lenOr()}
	}
}

func (c Case) lenOr() int {
	if c.Kind == "depth" {
		return len(c.Head) + len(c.Unit)*c.Reps + len(c.Tail)
	}
	return len(c.Raw)
}

// process runs a batch to completion on worker *w (replaced if it dies), isolating inputs that kill or hang it.
func process(wp **worker, a *agg, space string, b Batch) {
	for b.Lo < b.Hi {
		if fatalOutcomes.Load() >= maxFatalOutcomes {
			return
		}
		o := (*wp).run(b)
		if o.done != nil {
			a.merge(space, o.done)
			return
		}
		(*wp).kill()
		*wp = spawn()
		if b.Hi-b.Lo == 1 && o.last < b.Lo {
			o.last = b.Lo // a batch of one: the culprit is known
		} else if !b.Careful {
			b.Careful = true // find the culprit: the worker announces every case
			continue
		}
		if o.last < b.Lo {
			lib.Fatal("worker died before starting any case of %+v: %s %s", b, o.exit, o.stderr)
		}
		culprit := b.Case
		if culprit.Kind == "depth" {
			culprit.Reps = int(o.last)
		} else {
			culprit.Idx = o.last
		}
		class, detail := crashClass(o)
		// determinism: the single case must kill a fresh worker again, the same way
		o2 := (*wp).run(Batch{Case: b.Case, Lo: o.last, Hi: o.last + 1, Careful: true, HangSec: b.HangSec})
		if o2.done != nil {
			lib.Fatal("HARNESS-NONDETERMINISM case %+v killed a worker (%s) but passed alone", culprit.describe(), class)
		}
		(*wp).kill()
		*wp = spawn()
		if c2, _ := crashClass(o2); c2 != class {
			lib.Fatal("HARNESS-NONDETERMINISM case %+v: %s then %s", culprit.describe(), class, c2)
		}
		a.crash(space, culprit, class, detail)
		if o.last > b.Lo { // the part before the culprit is known to be survivable
			pre := b
			pre.Hi, pre.Careful = o.last, false
			process(wp, a, space, pre)
		}
		b.Lo, b.Careful = o.last+1, false
	}
}

// corpus lists the repository's own BUILD-language files, smallest first.
type corpusFile struct {
	Path string
	Size int
}

func corpus() []corpusFile {
	var out []corpusFile
	filepath.Walk(repoRoot, func(p string, info os.FileInfo, err error) error {
		if err != nil {
			return nil
		}
		if info.IsDir() {
			if n := info.Name(); n == "plz-out" || n == ".git" || n == "verifharness" || n == "verifshim" {
				return filepath.SkipDir
			}
			return nil
		}
		n := info.Name()
		if !info.Mode().IsRegular() {
			return nil
		}
		if n == "BUILD" || n == "BUILD.plz" || strings.HasSuffix(n, ".build_defs") || strings.HasSuffix(n, ".build") || strings.HasSuffix(n, ".plz") {
			rel, _ := filepath.Rel(repoRoot, p)
			out = append(out, corpusFile{rel, int(info.Size())})
		}
		return nil
	})
	sort.Slice(out, func(i, j int) bool {
		if out[i].Size != out[j].Size {
			return out[i].Size < out[j].Size
		}
		return out[i].Path < out[j].Path
	})
	return out
}

// depthUnits: the recursive constructs. Each is repeated Reps times and followed by Tail. Reps (in the template) is the
// highest rung of this unit's ladder in the thorough tier: 1e6 for bracket nesting (1-2 MB inputs), more for the cheap
// linear chains, less where the parser's cost is quadratic (adjacent-string concatenation re-copies the string).
var depthUnits = []Case{
	{Kind: "depth", Unit: "[", Tail: "\n", Reps: 1000000},                // parseList -> parseExpression
	{Kind: "depth", Unit: "(", Tail: "\n", Reps: 1000000},                // tuple
	{Kind: "depth", Unit: "{", Tail: "\n", Reps: 1000000},                // parseDict
	{Kind: "depth", Unit: "x(", Tail: "\n", Reps: 1000000},               // parseCall
	{Kind: "depth", Unit: "x[", Tail: "\n", Reps: 1000000},               // parseSlice
	{Kind: "depth", Unit: "x.", Tail: "x\n", Reps: 4000000},              // parseIdentExpr
	{Kind: "depth", Unit: "x+", Tail: "x\n", Reps: 4000000},              // operator chain (right recursion)
	{Kind: "depth", Unit: "\"a\" ", Tail: "\n", Reps: 100000},            // implicit string concatenation (quadratic)
	{Kind: "depth", Unit: "x if x else ", Tail: "x\n", Reps: 4000000},    // inline if
	{Kind: "depth", Unit: "lambda:", Tail: "x\n", Reps: 4000000},         // lambda bodies
	{Kind: "depth", Unit: "\n", Tail: "x\n", Reps: 1000000},              // blank lines (lexer recursion)
	{Kind: "depth", Unit: "#\n", Tail: "x\n", Reps: 1000000},             // comment lines (lexer recursion)
	{Kind: "depth", Unit: "\r", Tail: "x\n", Reps: 1000000},              // carriage returns (lexer recursion)
	{Kind: "depth", Unit: "x=[\n", Tail: "\n", Reps: 1000000},            // statements never closed
	{Kind: "depth", Unit: "if x:\n ", Tail: "pass\n", Reps: 1000000},     // NB: indentation does not grow; rejected early
	{Kind: "depth", Unit: "x = 1\n", Tail: "", Reps: 1000000},            // a long, flat, valid file (control)
	{Kind: "depth", Unit: "x = [1, 2, 3] + y\n", Tail: "", Reps: 100000}, // ditto
}

// lengthUnits: single TOKENS of every length 1..96 (fixed-size scratch buffers, length checks that are off by one) and of
// the ladder's lengths: integer literals (plain, negative, octal), identifiers, strings of the three kinds, comments.
var lengthUnits = []Case{
	{Kind: "depth", Head: "x = ", Unit: "1", Tail: "\n", Reps: 1000000},
	{Kind: "depth", Head: "x = -", Unit: "1", Tail: "\n", Reps: 1000000},
	{Kind: "depth", Head: "x = 0o", Unit: "7", Tail: "\n", Reps: 1000000},
	{Kind: "depth", Head: "x = 0", Unit: "0", Tail: "\n", Reps: 1000000},
	{Kind: "depth", Head: "f(", Unit: "9", Tail: ")\n", Reps: 1000000},
	{Kind: "depth", Head: "x = [1, ", Unit: "1", Tail: "]\n", Reps: 1000000},
	{Kind: "depth", Head: "", Unit: "x", Tail: " = 1\n", Reps: 1000000},
	{Kind: "depth", Head: "x = \"", Unit: "a", Tail: "\"\n", Reps: 1000000},
	{Kind: "depth", Head: "x = f\"", Unit: "a", Tail: "\"\n", Reps: 1000000},
	{Kind: "depth", Head: "x = f\"{", Unit: "a", Tail: "}\"\n", Reps: 1000000},
	{Kind: "depth", Head: "x = r'", Unit: "\\\\", Tail: "'\n", Reps: 1000000},
	{Kind: "depth", Head: "x = \"\"\"", Unit: "a\n", Tail: "\"\"\"\n", Reps: 1000000},
	{Kind: "depth", Head: "#", Unit: "c", Tail: "\nx = 1\n", Reps: 1000000},
	{Kind: "depth", Head: "x = 1", Unit: " ", Tail: "\n", Reps: 1000000},
}

type ladderRow struct {
	Unit    string  `json:"unit"`
	Reps    int     `json:"reps"`
	Bytes   int     `json:"bytes"`
	Outcome string  `json:"outcome"`
	Seconds float64 `json:"seconds"`
}

func main() {
	if len(os.Args) > 1 && os.Args[1] == "--c19-worker" {
		workerMain()
		return
	}
	r := lib.Start("C19", "exploration")
	lib.Quiet()
	a := &agg{counts: map[string]int{}, best: map[string]ViolRec{}, perSpace: map[string]int64{}}

	if r.Replay != "" {
		var c Case
		lib.LoadReplay(r.Replay, &c)
		w := spawn()
		tmpl := c
		lo := int64(0)
		if c.Raw != nil {
			tmpl = Case{Kind: "raw", Raw: c.Raw}
		} else if c.Kind == "depth" {
			lo = int64(c.Reps)
		} else {
			lo = c.Idx
		}
		o := w.run(Batch{Case: tmpl, Lo: lo, Hi: lo + 1, Careful: true, HangSec: 600})
		if o.done != nil {
			a.merge("replay", o.done)
		} else {
			class, detail := crashClass(o)
			a.crash("replay", c, class, detail)
		}
		w.kill()
		for cl, v := range a.best {
			r.Violate(cl, v.Case, v.Detail)
		}
		r.Finish(lib.Coverage{Evaluations: 1, DistinctNontrivial: 1, Rule: "replay", Samples: []any{c}, Exhaustive: true})
	}

	// ---- the spaces, simplest first
	type job struct {
		space string
		b     Batch
	}
	jobs := make(chan job, 64)
	maxLen := []int{4, 3}
	fileCap := 1024
	ladder := []int{1000, 20000}
	ladderCap := 20000
	if !r.Quick() {
		maxLen = []int{5, 4}
		fileCap = 1 << 30
		ladder = []int{1000, 10000, 100000, 1000000, 2000000, 4000000} // (a 500 000-deep nest parses, in minutes: the Go runtime rescans the huge stack)
		ladderCap = 1 << 30
	}
	files := corpus()
	var nfiles, fileBytesTotal int
	go func() {
		defer close(jobs)
		const chunk = 20000
		maxN := maxLen[0]
		for n := 1; n <= maxN; n++ {
			for al := range alphabets {
				if n > maxLen[al] {
					continue
				}
				total := ipow(len(alphabets[al]), n)
				for j := range joiners {
					if n == 1 && j > 0 {
						continue // a single token has nothing to join
					}
					if r.Quick() && n == maxLen[al] && n > 2 && j == 0 {
						continue // quick tier: the longest strings only space-separated (every token boundary is then unambiguous)
					}
					for lo := int64(0); lo < total; lo += chunk {
						hi := min(lo+chunk, total)
						jobs <- job{fmt.Sprintf("tok:alphabet%d:len%d", al, n), Batch{Case: Case{Kind: "tok", Alpha: al, N: n, Join: j}, Lo: lo, Hi: hi, HangSec: 10}}
					}
				}
			}
			if n == 2 { // the corpus comes after the very small token strings
				for _, f := range files {
					if f.Size > fileCap {
						continue
					}
					nfiles++
					fileBytesTotal += f.Size
					// batches of roughly equal byte volume
					per := int64(max(50, min(20000, (8<<20)/(f.Size+1))))
					for lo := int64(0); lo <= int64(f.Size); lo += per {
						jobs <- job{"file:prefix", Batch{Case: Case{Kind: "file", Path: f.Path, Mode: "prefix"}, Lo: lo, Hi: min(lo+per, int64(f.Size)+1), HangSec: 30}}
					}
					for lo := int64(0); lo < int64(f.Size); lo += per {
						jobs <- job{"file:delete", Batch{Case: Case{Kind: "file", Path: f.Path, Mode: "delete"}, Lo: lo, Hi: min(lo+per, int64(f.Size)), HangSec: 30}}
					}
				}
			}
		}
	}()

	var capped atomic.Bool
	var wg sync.WaitGroup
	nw := runtime.NumCPU()
	for i := 0; i < nw; i++ {
		wg.Add(1)
		go func() {
			defer wg.Done()
			w := spawn()
			defer func() { w.kill() }()
			for j := range jobs {
				if r.OutOfTime() || fatalOutcomes.Load() >= maxFatalOutcomes {
					capped.Store(true)
					continue
				}
				process(&w, a, j.space, j.b)
				a.samples.Add(func() any {
					c := j.b.Case
					if c.Kind == "depth" {
						c.Reps = int(j.b.Lo)
					} else {
						c.Idx = j.b.Lo
					}
					return c.describe()
				})
			}
		}()
	}

	// ---- the depth ladder runs beside the enumeration: one input per fresh process, a few units at a time
	var rows []ladderRow
	var rowsMu sync.Mutex
	da := &agg{counts: map[string]int{}, best: map[string]ViolRec{}, perSpace: map[string]int64{}}
	units := make(chan Case, len(depthUnits)+len(lengthUnits))
	for _, u := range lengthUnits {
		units <- u
	}
	for _, u := range depthUnits {
		units <- u
	}
	close(units)
	for k := 0; k < 4; k++ {
		wg.Add(1)
		go func() {
			defer wg.Done()
			for u := range units {
				top := min(u.Reps, ladderCap)
				rungs := ladder
				if u.Head != "" || u.Unit == "x" {
					// a token-length unit: every length up to 96 first (one process for all of them), then the ladder
					w := spawn()
					ua := &agg{counts: map[string]int{}, best: map[string]ViolRec{}, perSpace: map[string]int64{}}
					tmpl := u
					tmpl.Reps = 0
					t0 := time.Now()
					process(&w, ua, "depth", Batch{Case: tmpl, Lo: 1, Hi: 97, HangSec: 60})
					w.kill()
					oc := ua.diffCounts(nil)
					rowsMu.Lock()
					rows = append(rows, ladderRow{u.Head + u.Unit + "*" + u.Tail, 96, len(u.Head) + len(u.Unit)*96 + len(u.Tail), "every length 1..96: " + oc, time.Since(t0).Seconds()})
					da.absorb(ua)
					rowsMu.Unlock()
					if oc != "ok" {
						continue
					}
				}
				for _, reps := range rungs {
					if reps > top {
						break
					}
					if r.OutOfTime() {
						capped.Store(true)
						return
					}
					ua := &agg{counts: map[string]int{}, best: map[string]ViolRec{}, perSpace: map[string]int64{}} // outcomes are attributed per rung
					w := spawn()
					t0 := time.Now()
					tmpl := u
					tmpl.Reps = 0
					process(&w, ua, "depth", Batch{Case: tmpl, Lo: int64(reps), Hi: int64(reps) + 1, HangSec: 600})
					w.kill()
					oc := ua.diffCounts(nil)
					rowsMu.Lock()
					rows = append(rows, ladderRow{u.Unit, reps, len(u.Unit)*reps + len(u.Tail), oc, time.Since(t0).Seconds()})
					da.absorb(ua)
					rowsMu.Unlock()
					if oc != "ok" {
						break // the smallest failing rung is the witness
					}
				}
			}
		}()
	}
	wg.Wait()
	a.absorb(da)

	classes := make([]string, 0, len(a.best))
	for cl := range a.best {
		classes = append(classes, cl)
	}
	sort.Strings(classes)
	sort.Slice(rows, func(i, j int) bool {
		if rows[i].Unit != rows[j].Unit {
			return rows[i].Unit < rows[j].Unit
		}
		return rows[i].Reps < rows[j].Reps
	})
	for _, cl := range classes {
		v := a.best[cl]
		r.Violate(cl, v.Case, fmt.Sprintf("%s [input of %d bytes; %d inputs of this class]", v.Detail, v.Len, a.counts[cl]))
		for i := 1; i < a.counts[cl]; i++ {
			r.Violate(cl, nil, "")
		}
	}
	r.Assume = []string{
		"'positioned' = the returned error (errors.As chain) is an asp errorStack with at least one frame; the frame's offset is NOT required to lie inside the input (counted separately as positions_outside_input)",
		"'internal runtime error' = the error below the position wrapper is a runtime.Error, or its text matches runtime error|index out of range|nil pointer|slice bounds while the input itself does not contain such text",
		"crash = the worker process running ParseData dies (Go's stack overflow is fatal and unrecoverable; default 1 GB stack limit, as in plz); hang = one input (< 100 bytes) does not return within 10 s / a corpus mutation within 30 s / a depth-ladder input within 600 s; after 3 crashing or hanging inputs the enumeration stops early with exhaustive=false",
		"termination with super-linear cost (operator chains are hoisted quadratically) is not a violation of 'terminates'; such ladders are cut short and listed in depth_ladder",
		"ParseData is given a file name that does not exist on disk, as for any in-memory reader",
	}
	extra := map[string]any{
		"per_space_evaluations":   a.perSpace,
		"accepted_programs":       a.accepted,
		"positions_outside_input": a.posOutside,
		"token_alphabets":         alphabets,
		"max_token_length":        maxLen,
		"corpus_files":            nfiles,
		"corpus_bytes":            fileBytesTotal,
		"depth_ladder":            rows,
		"violation_counts":        a.counts,
	}
	if a.posSample != nil {
		extra["positions_outside_input_sample"] = a.posSample
	}
	r.Finish(lib.Coverage{
		Evaluations:        int(a.evals),
		DistinctNontrivial: int(a.nontrivial),
		Rule:               "cases are distinct (alphabet, token sequence, joiner) / (file, prefix length) / (file, deleted byte) / (unit, repetitions) tuples; non-trivial = the parser got past the first byte: a program with >= 1 statement, a rejection positioned after offset 1, or a violation",
		Samples:            a.samples.List(),
		Exhaustive:         !capped.Load(),
		Extra:              extra,
	})
}

func (a *agg) snapshotCounts() map[string]int {
	a.mu.Lock()
	defer a.mu.Unlock()
	m := map[string]int{}
	for k, v := range a.counts {
		m[k] = v
	}
	return m
}

func (a *agg) diffCounts(before map[string]int) string {
	a.mu.Lock()
	defer a.mu.Unlock()
	var out []string
	for k, v := range a.counts {
		if v > before[k] {
			out = append(out, k)
		}
	}
	if len(out) == 0 {
		return "ok"
	}
	sort.Strings(out)
	return strings.Join(out, ",")
}

func (a *agg) absorb(b *agg) {
	a.evals += b.evals
	a.accepted += b.accepted
	a.nontrivial += b.nontrivial
	a.posOutside += b.posOutside
	if a.posSample == nil {
		a.posSample = b.posSample
	}
	for k, v := range b.perSpace {
		a.perSpace[k] += v
	}
	for k, v := range b.counts {
		a.counts[k] += v
	}
	for k, v := range b.best {
		if old, ok := a.best[k]; !ok || smaller(v, old) {
			a.best[k] = v
		}
	}
}

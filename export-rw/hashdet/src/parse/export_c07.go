//go:build verif

package parse

import "github.com/thought-machine/please/src/core"

// VerifParsePackageC07 parses one package and adds it to the graph without activating anything.
func VerifParsePackageC07(state *core.BuildState, pkgName string) error {
	label := core.BuildLabel{PackageName: pkgName, Name: "all"}
	_, err := parsePackage(state, label, core.OriginalTarget, nil, core.ParseModeNormal)
	return err
}

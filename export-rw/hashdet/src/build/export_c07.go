//go:build verif

package build

import "github.com/thought-machine/please/src/core"

// VerifSourceHashC07 exposes sourceHash.
func VerifSourceHashC07(state *core.BuildState, target *core.BuildTarget) ([]byte, error) {
	return sourceHash(state, target)
}

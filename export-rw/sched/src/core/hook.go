//go:build verif

package core

// VerifLogged counts build results handed to logResult (reset by the harness per execution).
var VerifLogged int

// logResult is the seam: the original is renamed to logResultReal by the rewriter.
func (state *BuildState) logResult(result *BuildResult) {
	VerifLogged++
	state.logResultReal(result)
}

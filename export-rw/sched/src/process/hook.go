//go:build verif

package process

import "time"

// VerifExecHook, when set, answers every shell command execution in-process (the harness's fake action executor).
var VerifExecHook func(target Target, dir string, env []string, cmd string) ([]byte, []byte, error)

// ExecWithTimeoutShell is the seam: the original is renamed to ExecWithTimeoutShellReal by the rewriter.
func (e *Executor) ExecWithTimeoutShell(target Target, dir string, env []string, timeout time.Duration, showOutput, foreground bool, sandbox SandboxConfig, cmd string) ([]byte, []byte, error) {
	if VerifExecHook != nil {
		return VerifExecHook(target, dir, env, cmd)
	}
	return e.ExecWithTimeoutShellReal(target, dir, env, timeout, showOutput, foreground, sandbox, cmd)
}
